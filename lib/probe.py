#!/usr/bin/env python3
"""probe.py [--checks nomem|default] [--timeout N] [--jobs N] harness... : run harnesses, print cost"""
import sys, os; sys.path.insert(0, os.path.dirname(os.path.abspath(__file__)))
import kanirun as K, argparse
from concurrent.futures import ThreadPoolExecutor
ap=argparse.ArgumentParser(); ap.add_argument("names",nargs="+"); ap.add_argument("--checks",default="nomem")
ap.add_argument("--timeout",type=int,default=600); ap.add_argument("--jobs",type=int,default=8); ap.add_argument("--features",default="")
ap.add_argument("--unwind",type=int,default=None); ap.add_argument("--fs",type=int,default=None); ap.add_argument("--ru",type=int,default=None); ap.add_argument("--keep",action="store_true")
a=ap.parse_args()
feat=[f for f in a.features.split(",") if f]
m,dt=K.codegen(a.names,feat); print("codegen %.0fs"%dt, flush=True)
def w(n):
    o={"harness":n,"timeout":a.timeout,"checks":a.checks,"keep":a.keep}
    if a.unwind: o["unwind"]=a.unwind
    if a.fs: o["fs_array"]=a.fs
    if a.ru: o["realloc_unwind"]=a.ru
    r=K.run_cbmc(o,m[n],f"/verif/.work/run/probe/{n.replace('::','__')}" + (f"-fs{a.fs}" if a.fs else ""))
    fl=[f["label"] for f in r["failed"]][:8]
    cov={k:v for k,v in r["covers"].items()}
    if not a.keep:
        import shutil; shutil.rmtree(f"/verif/.work/run/probe/{n.replace('::','__')}" + (f"-fs{a.fs}" if a.fs else ""), ignore_errors=True)
    print(n,r["status"],r.get("wall_s"),{k:r["stats"].get(k) for k in ("symex_s","solver_s","sat_vars","vccs_remaining")},r.get("detail","")[:300],fl,"covers_unsat=",[k for k,v in cov.items() if not v],flush=True)
with ThreadPoolExecutor(a.jobs) as ex: list(ex.map(w,a.names))
