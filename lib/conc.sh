#!/bin/bash
# conc.sh <module::harness> [unwind]: shows loops that symex could not bound concretely (hit the unwind limit)
h="$1"; u="${2:-6}"
cd /verif && python3 lib/probe.py --timeout 2 --keep --jobs 1 "$h" >/dev/null 2>&1
d=/verif/.work/run/probe/${h/::/__}
cd $d && timeout 120 cbmc --no-malloc-may-fail --no-undefined-shift-check --no-signed-overflow-check --no-bounds-check --no-pointer-check --no-pointer-primitive-check --object-bits 16 --unwind $u --unwindset __rust_realloc.3:40,__rust_realloc.4:40,__rust_realloc.5:40 --sat-solver cadical --slice-formula h.out --verbosity 9 2>&1 | grep "^Not unwinding" | sed 's/thread 0//; s/iteration [0-9]*//' | awk '{print $4, $(NF-1), $NF}' | sort | uniq -c | cut -c1-200
echo "-- done $h"
