// Copyright Kani Contributors
// Copy of kani-0.68.0/library/kani/kani_lib.c with ONE change in __rust_realloc (marked /verif change).
// SPDX-License-Identifier: Apache-2.0 OR MIT
#include <stddef.h>
#include <stdint.h>

// Declare functions instead of importing more headers in order to avoid conflicting definitions.
// See https://github.com/model-checking/kani/issues/1774 for more details.
void  free(void *ptr);
void *memcpy(void *dst, const void *src, size_t n);
void *calloc(size_t nmemb, size_t size);
void *malloc(size_t size);

/// Mapping unit to `void` works for functions with no return type but not for
/// variables with type unit. We treat both uniformly by declaring an empty
/// struct type: `struct Unit {}` and a global variable `struct Unit VoidUnit`
/// returned by all void functions (both declared by the Kani compiler).
struct Unit;
extern struct Unit VoidUnit;

// `assert` then `assume`
#define __KANI_assert(cond, msg)            \
    do {                                    \
        __CPROVER_bool __KANI_temp = (cond);          \
        __CPROVER_assert(__KANI_temp, msg); \
        __CPROVER_assume(__KANI_temp);      \
    } while (0)

// Check that the input is either a power of 2, or 0. Algorithm from Hackers Delight.
__CPROVER_bool __KANI_is_nonzero_power_of_two(size_t i) { return (i != 0) && (i & (i - 1)) == 0; }

// This is a C implementation of the __rust_alloc function.
// https://stdrs.dev/nightly/x86_64-unknown-linux-gnu/alloc/alloc/fn.__rust_alloc.html
// It has the following Rust signature:
//   `unsafe fn __rust_alloc(size: usize, align: usize) -> *mut u8`
// This low-level function is called by std::alloc:alloc, and its
// implementation is provided by the compiler backend, so we need to provide an
// implementation for it to prevent verification failure due to missing function
// definition.
// For safety, refer to the documentation of GlobalAlloc::alloc:
// https://doc.rust-lang.org/std/alloc/trait.GlobalAlloc.html#tymethod.alloc
uint8_t *__rust_alloc(size_t size, size_t align)
{
    __KANI_assert(size > 0, "__rust_alloc must be called with a size greater than 0");
    // TODO: Ensure we are doing the right thing with align
    // https://github.com/model-checking/kani/issues/1168
    __KANI_assert(__KANI_is_nonzero_power_of_two(align), "Alignment is power of two");
    return malloc(size);
}

// This is a C implementation of the __rust_alloc_zeroed function.
// https://stdrs.dev/nightly/x86_64-unknown-linux-gnu/alloc/alloc/fn.__rust_alloc_zeroed.html
// It has the following Rust signature:
//   unsafe fn __rust_alloc_zeroed(size: usize, align: usize) -> *mut u8
// This low-level function is called by std::alloc:alloc_zeroed, and its
// implementation is provided by the compiler backend, so we need to provide an
// implementation for it to prevent verification failure due to missing function
// definition.
// For safety, refer to the documentation of GlobalAlloc::alloc_zeroed:
// hhttps://doc.rust-lang.org/std/alloc/fn.alloc_zeroed.html
uint8_t *__rust_alloc_zeroed(size_t size, size_t align)
{
    __KANI_assert(size > 0, "__rust_alloc_zeroed must be called with a size greater than 0");
    // TODO: Ensure we are doing the right thing with align
    // https://github.com/model-checking/kani/issues/1168
    __KANI_assert(__KANI_is_nonzero_power_of_two(align), "Alignment is power of two");
    return calloc(1, size);
}

// This is a C implementation of the __rust_dealloc function.
// https://stdrs.dev/nightly/x86_64-unknown-linux-gnu/alloc/alloc/fn.__rust_dealloc.html
// It has the following Rust signature:
//   `unsafe fn __rust_dealloc(ptr: *mut u8, size: usize, align: usize)`
// This low-level function is called by std::alloc:dealloc, and its
// implementation is provided by the compiler backend, so we need to provide an
// implementation for it to prevent verification failure due to missing function
// definition.
// For safety, refer to the documentation of GlobalAlloc::dealloc:
// https://doc.rust-lang.org/std/alloc/trait.GlobalAlloc.html#tymethod.dealloc
struct Unit __rust_dealloc(uint8_t *ptr, size_t size, size_t align)
{
    // TODO: Ensure we are doing the right thing with align
    // https://github.com/model-checking/kani/issues/1168
    __KANI_assert(__KANI_is_nonzero_power_of_two(align), "Alignment is power of two");

    __KANI_assert(__CPROVER_OBJECT_SIZE(ptr) == size,
                  "rust_dealloc must be called on an object whose allocated size matches its layout");
    free(ptr);
    return VoidUnit;
}

// This is a C implementation of the __rust_realloc function that has the following signature:
//     fn __rust_realloc(ptr: *mut u8, old_size: usize, align: usize, new_size: usize) -> *mut u8;
// This low-level function is called by std::alloc:realloc, and its
// implementation is provided by the compiler backend, so we need to provide an
// implementation for it to prevent verification failure due to missing function
// definition.
// For safety, refer to the documentation of GlobalAlloc::realloc:
// https://doc.rust-lang.org/std/alloc/trait.GlobalAlloc.html#method.realloc
uint8_t *__rust_realloc(uint8_t *ptr, size_t old_size, size_t align, size_t new_size)
{
    // Passing a NULL pointer is undefined behavior
    __KANI_assert(ptr != 0, "rust_realloc must be called with a non-null pointer");

    // Passing a new_size of 0 is undefined behavior
    __KANI_assert(new_size > 0, "rust_realloc must be called with a size greater than 0");

    // TODO: Ensure we are doing the right thing with align
    // https://github.com/model-checking/kani/issues/1168
    __KANI_assert(__KANI_is_nonzero_power_of_two(align), "Alignment is power of two");

    uint8_t *result = malloc(new_size);
    if (result) {
        size_t bytes_to_copy = new_size < old_size ? new_size : old_size;
        // /verif change (the only one in this file): copy with an explicit loop instead of memcpy.
        // CBMC models memcpy as an array operation that does not constant-propagate, so after a Vec
        // grows (e.g. `vec![node]` then two pushes in node_to_stream) every element read back is an
        // opaque symbolic value and control flow that depends on it explodes. A loop copying in units of the
        // allocation's alignment (the element type of a Vec of integers/ids) is the same function; with a concrete size it is unrolled exactly (the driver gives this loop
        // its own unwind bound, and the unwinding assertion reports a size beyond it).
        if (align == 4 && (bytes_to_copy & 3) == 0) {
            uint32_t *__d = (uint32_t *)result; const uint32_t *__s = (const uint32_t *)ptr;
            for (size_t __verif_i = 0; __verif_i < bytes_to_copy / 4; __verif_i++) { __d[__verif_i] = __s[__verif_i]; }
        } else if (align == 8 && (bytes_to_copy & 7) == 0) {
            uint64_t *__d = (uint64_t *)result; const uint64_t *__s = (const uint64_t *)ptr;
            for (size_t __verif_i = 0; __verif_i < bytes_to_copy / 8; __verif_i++) { __d[__verif_i] = __s[__verif_i]; }
        } else {
            for (size_t __verif_i = 0; __verif_i < bytes_to_copy; __verif_i++) { result[__verif_i] = ptr[__verif_i]; }
        }
        free(ptr);
    }

    return result;
}

// Function required by the linker, see https://github.com/rust-lang/rust/pull/141061
struct Unit __rust_no_alloc_shim_is_unstable_v2(void)
{
    return VoidUnit;
}
