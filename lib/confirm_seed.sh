#!/bin/bash
# confirm_seed.sh <worktree>: demo fails with the change, existing lib tests pass with it, demo passes without it
wt="$1"; cd "$wt" || exit 9
export CARGO_NET_OFFLINE=true
echo "== demo with change (expect FAIL)"; cargo test --offline --test seeded_demo 2>&1 | grep -E "^test result|panicked|error(\[|:)" | head -5
echo "== lib tests with change (expect ok)"; cargo test --offline -p clvmr --lib 2>&1 | grep -E "^test result" | head -3
git stash push -q -- src
echo "== demo without change (expect ok)"; cargo test --offline --test seeded_demo 2>&1 | grep -E "^test result|panicked" | head -5
git stash pop -q
git status --short | head -5
