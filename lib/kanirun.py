"""Driver library: compile harnesses of /verif/harness with Kani (real clvmr from /repo),
run the goto-cc / goto-instrument / CBMC pipeline per obligation (same steps and flags as
kani-driver 0.68, extracted from `cargo kani --verbose`), parse verdicts, replay counterexamples
natively, write evidence.

Exit codes of a check: 0 held / only known findings; 1 VIOLATION (replayed natively);
2 counterexample did not reproduce natively (encoding or stub wrong); 3 undecided / harness broken
(timeout, OOM, unwinding bound too small, unsatisfied cover)."""
import json, os, re, resource, shutil, subprocess, sys, time, glob, hashlib
from concurrent.futures import ThreadPoolExecutor

VERIF = os.path.dirname(os.path.dirname(os.path.abspath(__file__)))
HARNESS = os.environ.get("VERIF_HARNESS_DIR") or os.path.join(VERIF, "harness")
WORK = os.path.join(VERIF, ".work")
REPO = "/repo"
KANI_LIB_C = os.path.join(VERIF, "lib", "cmodel", "kani_lib.c")  # Kani's C model with a loop-copy realloc
REALLOC_UNWIND = 132  # default bound of the copy loops in the realloc model (units copied + 1); per-obligation override 'realloc_unwind'
GUARD_FEATURE = "verif-hooks"  # cargo feature of /repo enabled by harness/Cargo.toml

ENV = dict(os.environ)
ENV["CARGO_NET_OFFLINE"] = "true"
ENV.pop("RUSTUP_TOOLCHAIN", None)

CBMC_BASE = ["--no-malloc-may-fail", "--no-undefined-shift-check", "--no-signed-overflow-check"]
CBMC_DEFAULT = CBMC_BASE + ["--nan-check", "--no-self-loops-to-assumptions", "--no-pointer-primitive-check"]
CBMC_NOMEM = CBMC_BASE + ["--no-bounds-check", "--no-pointer-check", "--nan-check",
                          "--no-self-loops-to-assumptions", "--no-pointer-primitive-check"]


def log(*a):
    print(*a, flush=True)


def sh(cmd, **kw):
    return subprocess.run(cmd, stdout=subprocess.PIPE, stderr=subprocess.STDOUT, text=True, **kw)


def target_dir(features):
    tag = "-".join(sorted(features)) if features else "default"
    if os.environ.get("VERIF_HARNESS_DIR"):
        tag += "-dev"
    return os.path.join(WORK, "target-" + tag)


def sync_lock():
    """harness crate resolves dependencies exactly as /repo does (re-copied when /repo's lock changes)"""
    src = os.path.join(REPO, "Cargo.lock")
    dst = os.path.join(HARNESS, "Cargo.lock")
    os.makedirs(WORK, exist_ok=True)
    stamp = os.path.join(WORK, "lock.sha")
    h = hashlib.sha256(open(src, "rb").read()).hexdigest()
    old = open(stamp).read().strip() if os.path.exists(stamp) else ""
    if h != old or not os.path.exists(dst):
        shutil.copy(src, dst)
        open(stamp, "w").write(h)


def codegen(harnesses, features):
    """cargo kani --only-codegen for exactly these harnesses; returns {pretty_name: metadata}"""
    sync_lock()
    td = target_dir(features)
    cmd = ["cargo", "kani", "--only-codegen", "--target-dir", td, "-Z", "stubbing", "--exact"]
    for h in harnesses:
        cmd += ["--harness", h]
    if features:
        cmd += ["--features", ",".join(features)]
    t0 = time.time()
    r = sh(cmd, cwd=HARNESS, env=ENV)
    dt = time.time() - t0
    if r.returncode != 0:
        log(r.stdout[-6000:])
        raise SystemExit(3)
    want = set(harnesses)
    best = None
    for mf in glob.glob(os.path.join(td, "kani", "*", "debug", "build", "clvmr-verif", "*", "out", "*.kani-metadata.json")):
        try:
            m = json.load(open(mf))
        except Exception:
            continue
        names = {h["pretty_name"] for h in m["proof_harnesses"]}
        if names == want:
            mt = os.path.getmtime(mf)
            if best is None or mt > best[0]:
                best = (mt, m)
    if best is None:
        log(r.stdout[-3000:])
        log("codegen: no metadata for requested harness set", sorted(want))
        raise SystemExit(3)
    out = {h["pretty_name"]: h for h in best[1]["proof_harnesses"]}
    return out, dt


def _limit(mem_gb):
    def f():
        b = int(mem_gb * (1 << 30))
        resource.setrlimit(resource.RLIMIT_AS, (b, b))
        resource.setrlimit(resource.RLIMIT_STACK, (resource.RLIM_INFINITY, resource.RLIM_INFINITY))
        os.setsid()
    return f


def link_goto(meta, rundir):
    """goto-cc / goto-instrument steps of kani-driver"""
    os.makedirs(rundir, exist_ok=True)
    out = os.path.join(rundir, "h.out")
    sym = meta["goto_file"]
    mangled = meta["mangled_name"]
    steps = [
        ["goto-cc", sym, KANI_LIB_C, "-o", out],
        ["goto-cc", out, "--function", mangled, "-o", out],
        ["goto-instrument", "--add-library", "--no-malloc-may-fail", out, out],
        ["goto-instrument", "--generate-function-body-options", "assert-false-assume-false",
         "--generate-function-body", ".*", "--drop-unused-functions", out, out],
        ["goto-instrument", "--ensure-one-backedge-per-target", out, out],
    ]
    for s in steps:
        r = sh(s)
        if r.returncode != 0:
            return None, r.stdout[-2000:]
    return out, ""


def show_loops(goto):
    r = sh(["cbmc", "--show-loops", goto])
    loops = []
    cur = None
    for line in r.stdout.splitlines():
        m = re.match(r"Loop (\S+):", line)
        if m:
            cur = m.group(1)
        m2 = re.search(r"file (\S+) line (\d+)(?: column \d+)? function (.+)$", line)
        if cur and m2:
            loops.append({"id": cur, "file": m2.group(1), "line": int(m2.group(2)), "function": m2.group(3)})
            cur = None
    return loops


def resolve_unwindset(spec, loops):
    """spec: ordered list of (key, n); key = substring of the loop's function name or a source-file suffix,
    optionally '@line'. Each loop takes the FIRST key that matches it. Returns the cbmc --unwindset value."""
    items = []
    hits = {i: False for i in range(len(spec))}
    for lp in loops:
        for i, (key, n) in enumerate(spec):
            k, _, ln = key.partition("@")
            if (k in lp["function"] or lp["file"].endswith(k)) and (not ln or int(ln) == lp["line"]):
                items.append(f"{lp['id']}:{n}")
                hits[i] = True
                break
    used = [(spec[i][0], spec[i][1], hits[i]) for i in range(len(spec))]
    return ",".join(items), used


STAT_RE = re.compile(r"(\d+) variables, (\d+) clauses")


def run_cbmc(ob, meta, rundir):
    """returns result dict for one obligation"""
    t0 = time.time()
    res = {"harness": ob["harness"], "status": "ERROR", "failed": [], "covers": {}, "stats": {}}
    goto, err = link_goto(meta, rundir)
    if goto is None:
        res["detail"] = "goto link failed: " + err
        return res
    unwind = ob.get("unwind") or meta["attributes"].get("unwind_value")
    flags = list(CBMC_NOMEM if ob.get("checks") == "nomem" else CBMC_DEFAULT)
    flags += ["--object-bits", str(ob.get("object_bits", 16))]
    # arrays up to this many elements get per-element SSA symbols, so values stored in the allocator's
    # (2 KiB) vectors and read back are constant-propagated by symex instead of staying symbolic
    flags += ["--max-field-sensitivity-array-size", str(ob.get("fs_array", 64))]
    if unwind:
        flags += ["--unwind", str(unwind)]
    ru = ob.get("realloc_unwind", REALLOC_UNWIND)
    uwset = [f"__rust_realloc.{i}:{ru}" for i in (3, 4, 5)]
    if ob.get("unwindset"):
        loops = show_loops(goto)
        uw, used = resolve_unwindset(ob["unwindset"], loops)
        res["unwindset"] = uw
        miss = [u for u in used if not u[2]]
        if miss:
            res["detail"] = f"unwindset keys matched no loop: {miss}"
            res["status"] = "BROKEN"
            return res
        if uw:
            uwset.append(uw)
    flags += ["--unwindset", ",".join(uwset)]
    flags += ["--sat-solver", ob.get("solver", "cadical"), "--slice-formula", goto, "--verbosity", "9", "--json-ui"]
    res["cbmc_flags"] = " ".join(f for f in flags if f != goto)
    # verdict cache: the verdict is a function of the linked goto binary (regenerated from /repo's current
    # source by the codegen step of this run) and the CBMC flags; an identical binary + flags was already decided
    ckey = hashlib.sha256(open(goto, "rb").read() + res["cbmc_flags"].encode()).hexdigest()
    cpath = os.path.join(WORK, "cache", ckey + ".json")
    res["goto_sha256"] = ckey[:16]
    if os.environ.get("VERIF_NO_CACHE") != "1" and os.path.exists(cpath):
        try:
            cached = json.load(open(cpath))
            cached["cached"] = True
            cached["harness"] = ob["harness"]
            cached["goto"] = goto
            cached["flags_list"] = [f for f in flags if f not in ("--json-ui",)]
            if not ob.get("keep") and cached.get("status") != "FAILED":
                os.remove(goto)
            return cached
        except Exception:
            pass
    jpath = os.path.join(rundir, "cbmc.json")
    timeout = ob.get("timeout", 600)
    with open(jpath, "w") as jf:
        try:
            p = subprocess.Popen(["cbmc"] + flags, stdout=jf, stderr=subprocess.DEVNULL,
                                 preexec_fn=_limit(ob.get("mem_gb", 14)))
            try:
                rc = p.wait(timeout=timeout)
            except subprocess.TimeoutExpired:
                try:
                    os.killpg(p.pid, 9)
                except Exception:
                    p.kill()
                p.wait()
                res["status"] = "TIMEOUT"
                res["detail"] = f"cbmc exceeded {timeout}s"
                res["wall_s"] = round(time.time() - t0, 1)
                return res
        except Exception as e:
            res["detail"] = f"cbmc spawn failed: {e}"
            return res
    res["wall_s"] = round(time.time() - t0, 1)
    try:
        msgs = json.load(open(jpath))
    except Exception as e:
        res["status"] = "ERROR"
        res["detail"] = f"cbmc rc={rc}, unparsable output ({e}); likely out of memory or crash"
        return res
    results = None
    st = res["stats"]
    prover_status = None
    for m in msgs:
        if "result" in m:
            results = m["result"]
        elif "cProverStatus" in m:
            prover_status = m["cProverStatus"]
        elif "messageText" in m:
            t = m["messageText"]
            mm = STAT_RE.search(t)
            if mm:
                st["sat_vars"] = max(st.get("sat_vars", 0), int(mm.group(1)))
                st["sat_clauses"] = max(st.get("sat_clauses", 0), int(mm.group(2)))
                st["solver_calls"] = st.get("solver_calls", 0) + 1
            elif t.startswith("Runtime Symex:"):
                st["symex_s"] = float(t.split(":")[1].strip().rstrip("s"))
            elif t.startswith("Runtime decision procedure:"):
                st["solver_s"] = round(st.get("solver_s", 0.0) + float(t.split(":")[1].strip().rstrip("s")), 3)
            elif t.startswith("Generated"):
                mm = re.search(r"Generated (\d+) VCC\(s\), (\d+) remaining", t)
                if mm:
                    st["vccs"] = int(mm.group(1))
                    st["vccs_remaining"] = int(mm.group(2))
            elif m.get("messageType") == "ERROR":
                res.setdefault("errors", []).append(t[:300])
    if results is None:
        res["detail"] = f"cbmc rc={rc} status={prover_status}: no result block (out of memory / crash?) " + \
            "; ".join(res.get("errors", []))[:500]
        return res
    funcs = set()
    nchecks = 0
    failed, covers, unwind_fail, unsupported = [], {}, [], []
    solver_error = False
    for r in results:
        prop = r["property"]
        parts = prop.rsplit(".", 2)
        cls = parts[-2] if len(parts) == 3 else ""
        fn = parts[0] if len(parts) == 3 else prop
        desc = r.get("description", "")
        desc = re.sub(r"^\[KANI_CHECK_ID_[^\]]*\]\s*", "", desc)
        status = r["status"]
        funcs.add(fn)
        if cls == "reachability_check":
            continue
        if cls == "cover":
            label = re.sub(r"^cover condition: ", "", desc)
            covers[label] = (status == "FAILURE")  # FAILURE of !cond == satisfied
            continue
        nchecks += 1
        if status == "FAILURE":
            loc = r.get("sourceLocation", {})
            item = {"class": cls, "label": desc.strip('"'), "function": fn, "property": prop,
                    "file": loc.get("file", ""), "line": loc.get("line", "")}
            if cls == "unwind" or "unwinding assertion" in desc or "recursion unwinding" in desc:
                unwind_fail.append(item)
            elif cls == "unsupported_construct":
                unsupported.append(item)
            else:
                failed.append(item)
        elif status == "ERROR":
            solver_error = True
        elif status not in ("SUCCESS",):
            failed.append({"class": cls, "label": f"status {status}: " + desc, "function": fn})
    res["checks"] = nchecks
    res["functions"] = len(funcs)
    res["function_names"] = sorted(f for f in funcs if f.startswith("clvmr::") or f.startswith("<clvmr"))[:60]
    res["covers"] = covers
    res["failed"] = failed
    if solver_error:
        res["status"] = "ERROR"
        res["detail"] = "CBMC reported status ERROR for its properties (solver ran out of memory or crashed): undecided"
    elif unwind_fail:
        res["status"] = "BROKEN"
        res["detail"] = "unwinding assertion failed (bound too small): " + \
            "; ".join(f"{u['function']}:{u.get('line','')}" for u in unwind_fail[:6])
    elif unsupported:
        res["status"] = "BROKEN"
        res["detail"] = "unsupported construct reachable: " + "; ".join(u["label"][:120] for u in unsupported[:4])
    elif failed:
        res["status"] = "FAILED"
    elif not all(covers.values()):
        res["status"] = "BROKEN"
        res["detail"] = "cover not satisfied (vacuity witness missing): " + \
            "; ".join(k for k, v in covers.items() if not v)
    else:
        res["status"] = "OK"
    if res["status"] in ("OK", "FAILED"):
        try:
            os.makedirs(os.path.join(WORK, "cache"), exist_ok=True)
            json.dump(res, open(cpath, "w"))
        except Exception:
            pass
    res["goto"] = goto
    res["flags_list"] = [f for f in flags if f not in ("--json-ui",)]
    if not ob.get("keep") and res["status"] != "FAILED":
        try:
            os.remove(goto)
        except OSError:
            pass
    return res


_TSIZE = {"u8": 1, "i8": 1, "bool": 1, "u16": 2, "i16": 2, "u32": 4, "i32": 4, "char": 4, "u64": 8, "i64": 8,
          "usize": 8, "isize": 8, "u128": 16, "i128": 16}


def _values_from_trace(trace):
    """values returned by kani::any_raw_internal::<T> / kani::any_raw_array::<T, N> in call order; bytes that
    the slicer removed from the formula (they do not influence the failure) are zero"""
    vals = []
    pending = None  # [display_name, elem_size, [ints]]
    for st in trace:
        t = st.get("stepType")
        if t == "function-call":
            dn = st.get("function", {}).get("displayName", "")
            m = re.match(r"kani::any_raw_internal::<(\w+)>$", dn)
            m2 = re.match(r"kani::any_raw_array::<(\w+), (\d+)>$", dn)
            if m or m2:
                ty = (m or m2).group(1)
                if ty not in _TSIZE:
                    return None, f"unsupported nondet type {dn}"
                pending = [dn, _TSIZE[ty], [0] * (int(m2.group(2)) if m2 else 1)]
            elif dn.startswith("kani::any_raw_"):
                return None, f"unsupported nondet source {dn}"
        elif t == "function-return" and pending and st.get("function", {}).get("displayName", "") == pending[0]:
            for n in pending[2]:
                vals.append([(n >> (8 * i)) & 0xff for i in range(pending[1])])
            pending = None
        elif t == "assignment" and pending:
            fn = st.get("sourceLocation", {}).get("function", "")
            lhs = st.get("lhs", "") or ""
            if fn != pending[0] or not lhs.startswith("goto_symex$$return_value"):
                continue
            val = st.get("value", {})
            me = re.search(r"\[(\d+)[a-z]*\]$", lhs)
            if "elements" in val:
                for e in val["elements"]:
                    b = e.get("value", {}).get("binary")
                    if b is not None and e.get("index", 0) < len(pending[2]):
                        pending[2][e["index"]] = int(b, 2)
            elif me and val.get("binary") is not None:
                if int(me.group(1)) < len(pending[2]):
                    pending[2][int(me.group(1))] = int(val["binary"], 2)
            elif val.get("binary") is not None and len(pending[2]) == 1:
                pending[2][0] = int(val["binary"], 2)
    return vals, ""


def trace_values(res, prop_names, timeout=1800, mem_gb=14):
    """Re-run CBMC on the kept goto binary for the failing properties only, with --trace, and read the
    values returned by kani::any_raw_* in execution order (what Kani's concrete playback does).
    returns [{label, values:[[bytes]], property}]"""
    goto = res.get("goto")
    if not goto or not os.path.exists(goto):
        return None, "goto binary not kept"
    out = []
    base = [f for f in res["flags_list"] if f != goto]
    for pn, label in prop_names:
        cmd = ["cbmc"] + base + ["--property", pn, "--trace", "--json-ui", goto]
        jpath = goto + ".trace.json"
        try:
            with open(jpath, "w") as jf:
                p = subprocess.Popen(cmd, stdout=jf, stderr=subprocess.DEVNULL, preexec_fn=_limit(mem_gb))
                try:
                    p.wait(timeout=timeout)
                except subprocess.TimeoutExpired:
                    try:
                        os.killpg(p.pid, 9)
                    except Exception:
                        p.kill()
                    p.wait()
                    return None, "trace run timed out"
            msgs = json.load(open(jpath))
        except Exception as e:
            return None, f"trace run failed: {e}"
        vals = None
        for m in msgs:
            for r in m.get("result", []) if isinstance(m, dict) else []:
                if r.get("status") == "FAILURE" and r.get("property") == pn and "trace" in r:
                    vals, err = _values_from_trace(r["trace"])
                    if vals is None:
                        return None, err
        try:
            os.remove(jpath)
        except OSError:
            pass
        if vals is not None:
            out.append({"label": label, "property": pn, "values": vals, "test": json.dumps(vals)})
    if not out:
        return None, "no failing trace found"
    return out, ""


def concrete_values(harness, features, timeout):
    """re-run the failing harness under kani-driver with concrete playback; parse the byte vectors"""
    td = target_dir(features)
    cmd = ["cargo", "kani", "--target-dir", td, "-Z", "stubbing", "-Z", "concrete-playback",
           "--concrete-playback=print", "--exact", "--harness", harness]
    if features:
        cmd += ["--features", ",".join(features)]
    try:
        r = subprocess.run(cmd, cwd=HARNESS, env=ENV, stdout=subprocess.PIPE, stderr=subprocess.STDOUT,
                           text=True, timeout=timeout)
    except subprocess.TimeoutExpired:
        return None, "concrete playback timed out"
    txt = r.stdout
    tests = []
    for block in re.findall(r"```\n(.*?)```", txt, re.S):
        vals = []
        for m in re.finditer(r"^\s*vec!\[([0-9, ]*)\],?\s*$", block, re.M):
            s = m.group(1).strip()
            vals.append([int(x) for x in s.split(",") if x.strip() != ""])
        lab = re.search(r'Check for `[^`]*`: "+(.*?)"+\s*$', block, re.M)
        tests.append({"values": vals, "label": lab.group(1) if lab else "", "test": block})
    if not tests:
        return None, "no concrete playback test produced:\n" + txt[-1500:]
    return tests, ""


_native_built = {}


def native_replay_bin(profile):
    if profile in _native_built:
        return _native_built[profile]
    env = dict(os.environ)
    env["CARGO_NET_OFFLINE"] = "true"
    tc = "1.92.0"
    try:
        for line in open(os.path.join(REPO, "rust-toolchain.toml")):
            m = re.match(r'\s*channel\s*=\s*"([^"]+)"', line)
            if m:
                tc = m.group(1)
    except OSError:
        pass
    env["RUSTUP_TOOLCHAIN"] = tc
    td = os.path.join(WORK, "native")
    cmd = ["cargo", "build", "--offline", "--features", "replay", "--bin", "replay", "--target-dir", td]
    if profile == "release":
        cmd.append("--release")
    r = sh(cmd, cwd=HARNESS, env=env)
    if r.returncode != 0:
        log(r.stdout[-3000:])
        _native_built[profile] = None
        return None
    p = os.path.join(td, profile if profile == "release" else "debug", "replay")
    _native_built[profile] = p
    return p


def native_replay(harness, values, outdir, profiles=("debug", "release")):
    """returns (reproduced: bool|None, details)"""
    os.makedirs(outdir, exist_ok=True)
    vpath = os.path.join(outdir, harness.replace("::", "__") + ".values.json")
    json.dump(values, open(vpath, "w"))
    outcome = {}
    for prof in profiles:
        b = native_replay_bin(prof)
        if b is None:
            outcome[prof] = {"rc": None, "msg": "native build failed"}
            continue
        env = dict(os.environ)
        env["RUST_BACKTRACE"] = "0"
        try:
            r = subprocess.run([b, harness, vpath], stdout=subprocess.PIPE, stderr=subprocess.STDOUT, text=True,
                               timeout=300, env=env)
            msg = ""
            m = re.search(r"panicked at ([^\n]*)\n([^\n]*)", r.stdout)
            if m:
                msg = (m.group(1) + " " + m.group(2)).strip()
            outcome[prof] = {"rc": r.returncode, "msg": msg or r.stdout[-300:]}
        except subprocess.TimeoutExpired:
            outcome[prof] = {"rc": None, "msg": "native replay timed out"}
    return vpath, outcome
