#!/usr/bin/env python3
"""Writes /verif/MANIFEST.json from the claims table below (checks) and the not-applicable reasons."""
import json, os
V = os.path.dirname(os.path.dirname(os.path.abspath(__file__)))
TECH = ("bounded model checking of the real Rust code: Kani 0.68 -> CBMC 6.11 symbolic execution of the compiled clvmr "
        "functions -> CaDiCaL SAT verdict over symbolic inputs, unwinding assertions on, counterexamples replayed natively "
        "before being reported")
CLAIMS = {
 "C01": ("Real operator vs reference model M on symbolic arguments for the byte/structure operators of the classic set (if c f r l x = >s strlen substr concat not any all): same value, cost and error kind; five run_program templates (cons of quotes, if, environment paths, unknown opcode) with exact cost and result. Arithmetic/bitwise operators and deeper programs are outside the bound (num-bigint does not finish under CBMC).",
         "10.3 C01", "M stands in for the Python clvm package (not installed); interpreter templates use MiniDialect (real ChiaDialect except the opcode table)"),
 "C02": ("Budget clause: for the modelled operators a symbolic budget only changes the outcome through CostExceeded when a partial cost exceeds it; five run_program templates succeed iff budget is 0 or >= the exact cost and otherwise fail with CostExceeded only.",
         "10.3 C02", "programs with one operator application; softfork guards outside"),
 "C03": ("Representation independence for the modelled byte/structure operators: agreement with the byte-level reference model is decided with arguments in the heap-view representation and in the inline small-integer representation with symbolic values (one or two symbolic inline integers), so the outcome is the same across these representations; run_program templates leave allocator counts that depend only on the program.",
         "10.3 C03", "heap-copied representation, arithmetic operators, heap history and the validated-point cache are outside the bound"),
 "C04": ("Kernel level: maybe_restore_with_node after a transparent checkpoint and 130 pairs for each class of return value: counts unchanged, replacement has identical bytes, never an internal error; run_program templates give identical outcome and allocator counts with and without ENABLE_GC (no restore triggers in them).",
         "10.3 C04", "whole runs in which a restore actually triggers are outside the bound"),
 "C07": ("Five run_program templates with a symbolic subset of NO_UNKNOWN_OPS, CANONICAL_INTS, LIMIT_SOFTFORK, ENABLE_GC: identical outcome for every subset, except the unknown-opcode template (nil at cost 22 without NO_UNKNOWN_OPS, Unimplemented with it).",
         "10.3 C07", "size-limit flags, RELAXED_BLS and softfork argument errors are outside the bound"),
 "C09": ("op_unknown vs the published rule for opcode lengths 0..6, arity 0..2, argument atoms of any length below 2 MiB (length-only atoms), any opcode bytes, any budget, both cost models. Known finding: the pre-hard-fork model's wrapping multiplication lets products >= 2^64 succeed.",
         "10.3 C09", "arity 3 exhausts the solver's memory; uses the hook Allocator::verif_atom_span"),
 "C10": ("Cost kernels over full ranges against the documented formulas (new-model div/mod for all 32-bit lengths; modpow both models below 4096 bytes and new-model overflow exits for all 32-bit e, m), unknown-operator cost functions, and cost = model formula for the byte/structure operators under both cost models.",
         "10.3 C10", "costs that depend on bignum magnitudes, hashing and crypto costs, sha256tree are outside the bound"),
 "C12": ("One allocator operation (new_atom of each length 0..5, new_small_number, new_pair, add_ghost_*, new_substr of each representation, new_concat of 0..3 terms, full/transparent checkpoint restore, maybe_restore_with_node) from a symbolic pre-state (any distance from the atom/pair caps, heap size anywhere in 7..47 of 47): counts move exactly as the separately-stored-byte-string model says. Known finding: substr of an inline atom copies to the heap.",
         "10.3 C12", "heap limit values other than the concrete ones are outside the claim; extension to histories is an argument"),
 "C13": ("Same single-step obligations: each operation fails with the right error iff completing it would exceed the cap, counts never exceed caps, failed operations leave counts and contents unchanged. Known finding: substr of an inline atom is not checked against the heap limit.",
         "10.3 C13", "verdicts shared with C12 through the goto-binary verdict cache"),
 "C14": ("fits_in_small_atom/len_for_value over all byte strings <= 5 bytes and all u32; new_u64/new_i64 over all 64-bit values; allocator step harnesses: bytes/children of new nodes read back, all pre-existing nodes unchanged after every operation including restores.",
         "10.3 C14", "new_number/new_malachite_number not covered (bignum)"),
 "C15": ("Length-prefix encoder/decoder round trip for every size (full u64) and first byte; is_canonical_atom accepts the serializer's prefix for every size and accepts a prefix iff it is minimal (every prefix buffer); byte-string templates (<= 1 pair, payload symbolic): decode -> re-serialize identical iff canonical, both length probes equal the bytes consumed.",
         "10.3 C15", "expected outcomes come from the generator's reference decoder (harness/gen_serde.py); ObjectCache length not covered; found and fixed: 5-byte-prefix minimum in is_canonical_atom (fix commit 2de9469)"),
 "C16": ("decode_size_with_offset for every prefix buffer; node_from_bytes, parse_triples, both length probes and is_canonical_serialization on 30+ byte-string templates (well-formed, non-minimal, truncated, oversized, trailing bytes, stray 0xfe, 2026 magic): accept/reject, bytes consumed, root triple, canonicity, allocation bounds, for all payload values.",
         "10.3 C16", "fully symbolic buffers and SHA-based outputs (tree_hash_from_stream) are outside the bound"),
 "C18": ("Both back-reference decoders and serialized_length_from_bytes on 57 templates (every path 1..15 on three stack shapes, two references with a cons in between, references to references, malformed paths): both decoders produce exactly the reference tree for all payload values, identical pair counts, length probe = bytes consumed, same reject set.",
         "10.3 C18", "paths are enumerated, not symbolic; error kinds on rejection are not compared (they differ by design)"),
 "C21": ("write_varint/read_varint decided over the complete input space (all 56-bit values; all 8-byte buffers x all available lengths x strict) against an arithmetic definition of the format.",
         "4 C21", "oracle is a 30-line arithmetic restatement of docs/serde-2026.md"),
 "C25": ("Every operator and run_program harness runs with Rust panic, arithmetic-overflow, slice-bounds and unwinding checks on and asserts that no outcome is EvalErr::InternalError; argument lists include pairs where atoms are expected and wrong arities.",
         "10.3 C25", "run_program beyond five templates, arithmetic operators on non-trivial operands and stack limits are outside the bound"),
 "C29": ("LimitedWriter + write_atom for every atom of 0..3 bytes and every limit; node_to_stream through LimitedWriter for the pair (x . y): Ok(identical bytes) iff length <= limit else exactly OutOfMemory.",
         "10.3 C29", "the public node_to_bytes_limit wrapper (Cursor<Vec<u8>> sink) did not finish; the back-reference serializer only through the shared writer pieces"),
}
NA = {
 "C05": "the no-fastpath build forces the bignum code paths; num-bigint arithmetic does not finish under CBMC even for 2-byte operands (measured > 400 s for + - * / on two 2-byte views)",
 "C06": "div, divmod, mod, modpow are bignum end to end (num-bigint vs malachite); op_div on two 2-byte views ran > 700 s without result; only the shared cost kernels are decided (under C10)",
 "C08": "soft-fork guards: the guard path of run_program did not finish in 15 minutes even with a concrete declared cost, extension and cost model (the argument parser's Result is symbolic under a symbolic budget, so the (program, environment) pair handed to the interpreter is a symbolic term and evaluation forks); the unknown-opcode half is covered under C07/C09",
 "C11": "the operators whose new-model branches could change a value (+ - logand logior logxor) are bignum; for the modelled operators the value is cost-model independent by the C01 obligations, which is not the substance of C11",
 "C17": "serializer decisions are driven by HashMaps keyed by SHA-256 tree hashes and a BFS over BitVec paths; keys, buckets and frontier are symbolic functions of SHA-256 output - beyond CBMC even for 2-pair trees; with concrete atoms it degenerates to one concrete run",
 "C19": "TreeCache: SHA-1-salted hashes, three HashMaps, bumpalo arena, random salt - same reason as C17, and salt independence needs the salt symbolic through SHA-1",
 "C20": "serde_2026 encoder interns through HashMap<Atom,..> (SipHash over symbolic bytes); the decoder has the Vec-stack structure that made the classic decoders tractable only on structure-concrete templates and was not built for lack of time; the varint kernel is C21 and the magic-prefix rejection clause is decided under C16/C18 (templates bad_magic_2026 / magic_2026)",
 "C22": "SHA-256 tree hashing under CBMC was not measured after the bignum and decoder results; not built",
 "C23": "needs run_program of the recursive ChiaLisp sha256tree program (apply templates did not finish) and SHA-256; not built",
 "C24": "HashMap<Atom,..>/HashMap<(NodePtr,NodePtr),..> over symbolic contents (SipHash + SSE2 group probing) is not encodable within reach",
 "C26": "pyo3 glue: every entry point takes Python<'_> and calls into libpython (FFI); Kani cannot model it and CrossHair cannot step into the native extension",
 "C27": "pyo3 glue keyed by Python object addresses (FFI into libpython); not encodable",
 "C28": "needs Rust-vs-Python equivalence; no engine here executes both symbolically and the native side is opaque to CrossHair",
 "C30": "RuntimeDialect::new builds a HashMap<Vec<u8>,..> of 40 operators and ChiaDialect::op links BLS/secp/keccak: every obligation spends > 4 minutes in goto-instrument before CBMC starts (measured on run_program under ChiaDialect); not built",
 "C31": "soft-fork guards: see C08 - the guard templates (declared cost symbolic or concrete, extensions 0/1/2, both cost models) did not finish in 15 minutes",
 "C32": "BLS12-381 (blst C/assembly behind FFI), secp256k1/r1 field arithmetic and Keccak/SHA digests versus independent implementations: FFI unreachable, 256/381-bit field multiplication out of reach for bit-blasting, and no independent implementations exist in the sandbox",
}
m = json.load(open(os.path.join(V, "MANIFEST.json")))
m["checks"] = []
for pid, (text, ref, note) in sorted(CLAIMS.items()):
    m["checks"].append({"property_id": pid, "quick_cmd": f"bin/check {pid} --tier quick", "thorough_cmd": f"bin/check {pid} --tier thorough",
                        "evidence_file": f"/verif/evidence/{pid}.json", "replay_cmd_template": "harness/replay.sh {path}", "engine": "kani-cbmc",
                        "level_claimed": {"category": "model_checking", "text": text, "design_ref": ref},
                        "level_note": "trusts Kani/CBMC/CaDiCaL, the environment stubs and the loop-copy realloc model (DESIGN 10.1); " + note,
                        "technique": TECH})
m["engines"][0]["serves_properties"] = sorted(CLAIMS)
m["hooks"]["source_commits"] = ["662f527", "3ba19ae", "a39389e", "4aa67a1"] + [c for c in m["hooks"].get("source_commits", []) if c not in ("662f527", "3ba19ae", "a39389e", "4aa67a1")]
m["not_applicable"] = [{"property_id": k, "reason": v} for k, v in sorted(NA.items())]
m["notes"] = ("All claims are bounded; per-obligation bounds, unwind, SAT size and solver time are in the evidence files. "
              "known_findings.json lists genuine defects (C09, C12, C13 recorded; C29 and C15 fixed). seeded/ holds independently produced "
              "breaking changes with the checks' verdicts on them (DESIGN 10.5).")
json.dump(m, open(os.path.join(V, "MANIFEST.json"), "w"), indent=1)
ids = {c["property_id"] for c in m["checks"]} | {n["property_id"] for n in m["not_applicable"]}
print(len(m["checks"]), "claimed,", len(m["not_applicable"]), "not applicable, total", len(ids))
