"""Proof obligations per property. Each obligation is one Kani harness in /verif/harness/src/<mod>.rs.
fields: harness (module::fn), tier (quick|thorough; thorough tier runs both), timeout (s, per CBMC run),
checks ('default' = all Kani checks, 'nomem' = pointer/bounds checks off, panics/overflow/unwinding on),
unwind (override of the harness attribute), unwindset [(loop key, n)], features, what, bounds."""

COMMON_ASSUMPTIONS = [
    "Kani 0.68 MIR->goto translation, CBMC 6.11 symbolic execution and CaDiCaL are trusted",
    "stubs (harness/src/stubs.rs): RandomState::new -> fixed keys; Vec::reserve -> try_reserve with requests >= 1MiB "
    "reduced to 64 bytes; alloc::fmt::format -> empty String; rand thread_rng -> arbitrary values; "
    "__cpuid_count -> zeros (portable SHA-256 path)",
    "allocators are mem::forget-ed at harness end (drop glue not analysed)",
    "claims hold only within the bounds listed per obligation (atom bytes, list arity, tree pairs, unwind)",
]


def ob(harness, what, bounds, tier="quick", timeout=600, **kw):
    d = {"harness": harness, "what": what, "bounds": bounds, "tier": tier, "timeout": timeout}
    d.update(kw)
    return d


REGISTRY = {}

REGISTRY["SELFTEST"] = {
    "obligations": [
        ob("selftest::selftest_must_fail", "pipeline self-test: must be reported FAILED and replay natively", "u64"),
        ob("selftest::selftest_vacuous_cover", "pipeline self-test: unsatisfiable cover must be reported BROKEN", "u8"),
        ob("selftest::selftest_array_any", "pipeline self-test: array-valued nondeterminism must replay natively", "[u8;3],[u16;2],bool"),
    ],
}

REGISTRY["C21"] = {
    "explanation": "write_varint/read_varint are executed symbolically for every value in [-2^55,2^55) and for "
                   "every 8-byte buffer (with every available length 0..8), against an arithmetic definition of the "
                   "format written from docs/serde-2026.md. This is the whole input space of the two functions, "
                   "not a sample; unwinding assertions prove the loop bounds (<= 8 iterations) sufficient.",
    "outside": "nothing inside the 56-bit range; values outside it make write_varint panic by documented contract",
    "obligations": [
        ob("c21::c21_encode_roundtrip_all_56bit",
           "every v in [-2^55,2^55): encoded length is the shortest, prefix declares the length, strict and lenient "
           "decode return v and consume exactly that many bytes",
           "all 2^56 values, strict symbolic; unwind 10", timeout=600),
        ob("c21::c21_decode_all_buffers",
           "every buffer: decode consumes exactly prefix-declared bytes, returns the denoted value, strict accepts "
           "iff minimal, minimal encodings re-encode to the same bytes, 0xFF and truncated inputs rejected",
           "all 2^64 8-byte buffers x available length 0..=8 x strict; unwind 10", timeout=900),
    ],
}

REGISTRY["C14"] = {
    "explanation": "Integer canonicity kernels are decided over their full domains (all byte strings <= 5 bytes, all "
                   "u32, all u64, all i64).",
    "outside": "new_number/new_malachite_number (bignum); histories longer than the stated step count; atom_eq on atoms longer than 4 bytes only through the = operator harnesses listed",
    "obligations": [
        ob("c14::c14_fits_in_small_atom_iff_minimal",
           "fits_in_small_atom(b)=Some(v) <=> b is the minimal two's complement encoding of 0<=v<2^26",
           "all byte strings of length 0..=5"),
        ob("c14::c14_len_for_value_all_u32", "len_for_value(v) = minimal encoding length", "all u32"),
        ob("c14::c14_new_u64_all_values",
           "new_u64(v): stored bytes are the minimal encoding, read back equal, small_number view iff v<2^26",
           "all u64", timeout=900),
        ob("c14::c14_new_i64_all_values",
           "new_i64(v): stored bytes are the minimal two's complement encoding, read back equal", "all i64",
           timeout=900),
    ] + [ob(h, "C14/ assertions of the allocator step harness: " + w, "one operation from the symbolic pre-state",
            timeout=1200, checks="nomem")
         for h, w in [("c12::c12_step_new_atom%d_contents" % n, "new_atom bytes read back; earlier nodes unchanged") for n in range(6)] +
                     [("c12::c12_step_new_small_number_contents", "small number reads back; earlier nodes unchanged"),
                      ("c12::c12_step_new_pair_contents", "pair children read back; earlier nodes unchanged"),
                      ("c12::c12_step_new_substr_heap_contents", "substr bytes = parent slice"),
                      ("c12::c12_step_new_substr_view_contents", "substr of a view: bytes = parent slice"),
                      ("c12::c12_step_new_substr_inline_contents", "substr of an inline integer: bytes = parent slice"),
                      ("c12::c12_step_checkpoint_full_contents", "nodes older than a checkpoint survive a restore and later allocations"),
                      ("c12::c12_step_checkpoint_transparent_contents", "nodes older than a transparent checkpoint survive")]]
       + [ob("opm::" + t["harness"], "atom_eq agrees with byte equality on " + t["shape"] + " (C14/ assertion of the = operator harness)",
             "shape concrete; atom contents / inline values symbolic", timeout=900, checks="nomem")
          for t in __import__("json").load(open(__import__("os").path.join(__import__("os").path.dirname(__import__("os").path.abspath(__file__)), "gen_registry.json")))["opm"]
          if t["op"] == "eq" and "pair" not in t["shape"] and t["shape"].count(",") == 1],
}

REGISTRY["C29"] = {
    "explanation": "The real LimitedWriter, write_atom and node_to_stream (the pieces node_to_bytes_limit composes; "
                   "node_to_bytes_backrefs_limit composes the same LimitedWriter, write_atom and f.write_all(&[marker])? "
                   "pieces) are run with a symbolic limit on symbolic contents and compared with the unlimited "
                   "serializer: Ok(identical bytes) iff len <= limit, otherwise exactly EvalErr::OutOfMemory, wherever "
                   "the crossing byte falls (cons marker, length prefix, atom body).",
    "outside": "atoms longer than 3 bytes (prefixes longer than one byte), trees with more than 2 pairs; the "
               "back-reference serializer's search structure (HashMap keyed by SHA-256) is not encoded, only the "
               "writer/marker pieces it shares with the classic serializer",
    "assumptions": ["output sink is a fixed-size buffer instead of Cursor<Vec<u8>> (Vec growth is not the subject)"],
    "obligations": [
        ob("c29::c29_atom_len0", "write_atom of the empty atom through LimitedWriter", "limit 0..=4", timeout=600, checks="nomem"),
        ob("c29::c29_atom_len1", "one-byte atom, any byte (with and without 0x81 prefix)", "limit 0..=5", timeout=600, checks="nomem"),
        ob("c29::c29_atom_len2", "two-byte atom, any content: crossing in prefix or body", "limit 0..=6", timeout=600, checks="nomem"),
        ob("c29::c29_atom_len3", "three-byte atom, any content", "limit 0..=7", timeout=600, checks="nomem"),
        ob("c29::c29_tree_pair", "(x . y), x 2-byte view, y 1-byte view: crossing on cons marker, prefix, body",
           "limit 0..=6, contents symbolic", timeout=1500, checks="nomem", unwind=12),
        # (two-pair shapes c29_tree_left_nested / c29_tree_right_nested_inline / c29_tree_shared exist in the harness crate; they took
        #  6-8 minutes each under an earlier configuration and were not re-measured under the final one, so they are not registered)
    ],
}

_PRE = ("pre-state built through the public API: a 6-byte symbolic heap atom, a view of it (symbolic bounds in the "
        "_limits variants), an inline small integer of symbolic value, a pair, add_ghost_atom/add_ghost_pair(any "
        "amount up to the cap) - any distance from the atom and pair caps; heap: concrete limit 47 with a symbolic "
        "number of 6-byte single-term concats so that heap_size is anywhere in 7..=47 (_limits variants), or a "
        "concrete limit 11..64 with every pre-existing node re-read afterwards (_contents variants)")

def _steps():
    L = []
    for n in range(6):
        L.append((f"c12::c12_step_new_atom{n}", f"new_atom of any {n}-byte content"))
    L += [("c12::c12_step_new_small_number", "new_small_number of any value < 2^26"),
          ("c12::c12_step_new_pair", "new_pair of any two existing nodes (heap/view/inline/pair)"),
          ("c12::c12_step_add_ghost", "add_ghost_atom / add_ghost_pair of any amount <= 125,000,000"),
          ("c12::c12_step_new_substr_heap", "new_substr of a heap atom, all u32 bounds"),
          ("c12::c12_step_new_substr_view", "new_substr of a view, all u32 bounds"),
          ("c12::c12_step_new_substr_inline", "new_substr of an inline small integer, all u32 bounds"),
          ("c12::c12_step_checkpoint_full", "checkpoint, batch of allocations, restore_checkpoint, one more allocation"),
          ("c12::c12_step_checkpoint_transparent", "transparent_checkpoint, batch, restore_transparent_checkpoint, one more allocation")]
    out = []
    for h, w in L:
        out.append((h + "_limits", w + " [near the caps]"))
        out.append((h + "_contents", w + " [existing contents re-read]"))
    for h, w in [("c12::c12_step_new_concat0_limits", "new_concat of no terms, any declared size"),
                 ("c12::c12_step_new_concat0_contents", "new_concat of no terms [contents]"),
                 ("c12::c12_step_new_concat1_heap_limits", "new_concat of one heap atom"),
                 ("c12::c12_step_new_concat1_view_limits", "new_concat of one view"),
                 ("c12::c12_step_new_concat1_inline_limits", "new_concat of one inline integer"),
                 ("c12::c12_step_new_concat1_inline_contents", "new_concat of one inline integer [contents]"),
                 ("c12::c12_step_new_concat2_heap_inline_limits", "new_concat(heap, inline), any declared size <= 32"),
                 ("c12::c12_step_new_concat2_inline_view_limits", "new_concat(inline, view)"),
                 ("c12::c12_step_new_concat2_view_heap_limits", "new_concat(view, heap)"),
                 ("c12::c12_step_new_concat2_inline_inline_limits", "new_concat(inline, inline)"),
                 ("c12::c12_step_new_concat3_heap_view_inline_limits", "new_concat(heap, view, inline)")]:
        out.append((h, w))
    return out

_ALLOC_OBS = [ob(h, w, "one operation from the symbolic pre-state; unwind 8", timeout=1200, checks="nomem") for h, w in _steps()]
_RESTORE_OBS = [ob("c12::c12_step_maybe_restore_" + k, "maybe_restore_with_node after 130 pairs (1040 bytes of savings) with a return value that is " + w,
                   "transparent checkpoint, concrete 130-pair batch, symbolic node contents; unwind 132", timeout=2400, checks="nomem", realloc_unwind=400,
                   tier=("quick" if k in ("before", "pair", "old_bytes") else "thorough"))
                # ("new_bytes": a new heap atom as return value - the obligation c12_step_maybe_restore_new_bytes exists in the
                #  harness crate but did not finish in 40 minutes and is not registered)
                for k, w in [("before", "older than the checkpoint"),
                             ("old_bytes", "a new view of bytes older than the checkpoint"), ("pair", "a new pair"),
                             ("inline", "an inline small integer")]]

REGISTRY["C12"] = {
    "explanation": "Inductive-step formulation: one allocator operation from a symbolic pre-state, counts compared with the "
                   "three-counter reference model (every atom a separately stored byte string). " + _PRE,
    "outside": "atoms longer than 6 bytes, concat of more than 3 terms; heap limits other than the concrete ones used; "
               "maybe_restore_with_node only with a 130-pair batch and the five return-value classes. The step argument extends to histories because the "
               "pre-state ranges over all counter values; that extension is an argument, not a solver result.",
    "obligations": _ALLOC_OBS + _RESTORE_OBS,
}
REGISTRY["C13"] = {
    "explanation": "Same single-step harnesses as C12 (verdicts are shared through the goto-binary cache); the C13/ "
                   "assertions state: an operation fails with the right error only when completing it would exceed the cap, "
                   "succeeds only when it would not, counts never exceed caps afterwards, failed operations leave counts and "
                   "existing contents unchanged. " + _PRE,
    "outside": "heap limits other than the concrete values 11..64 (distance to the limit is symbolic, the limit is not); "
               "run_program-level allocation near caps (only through the allocator operations it calls)",
    "obligations": _ALLOC_OBS,
}

def _c09_obs():
    L = []
    def add(name, what, bounds, **kw):
        L.append(ob("c09::" + name, what, bounds + "; argument lengths any value < 2^21 (length-only atoms), budget any u64", checks="nomem", **kw))
    add("c09_legacy_wrap_mul_like", "pre-hard-fork model, mul-like cost function, 5-byte opcode with any 4-byte multiplier, two atoms: "
        "base > 2^32-1 must fail", "unlimited budget", timeout=600)
    add("c09_unknown_op0b_0args_legacy", "empty opcode is rejected", "no arguments", timeout=600)
    add("c09_unknown_op6b_0args_legacy", "6-byte opcode is rejected", "any opcode bytes", timeout=600)
    for n in (1, 2, 3, 4, 5):
        for k in (0, 1):
            for m in ("legacy", "new"):
                add(f"c09_unknown_op{n}b_{k}args_{m}", f"{n}-byte opcode (any bytes), {k} argument(s) (atom of any length, or a pair), {m} cost model",
                    "all four cost functions", timeout=900)
    for n in (2, 4):
        for cf in range(4):
            for m in ("legacy", "new"):
                add(f"c09_unknown_op{n}b_2args_cf{cf}_{m}", f"{n}-byte opcode, cost function {cf}, 2 arguments (atoms of any length, or a pair), {m} cost model",
                    "one cost function per harness", timeout=1200, tier=("quick" if n == 4 and cf == 2 else "thorough"))
    # (3-argument obligations c09_unknown_op1b_3args_* exist in the harness crate but are not registered: they exhaust
    #  40 GB in the SAT solver even with one cost function, multiplier 0, no pairs and lengths < 4096)
    for m in ("legacy", "new"):
        add(f"c09_unknown_op2b_2args_{m}", "2-byte opcode, all cost functions, 2 arguments", "all four cost functions", timeout=3000, tier="thorough")
    return L


REGISTRY["C09"] = {
    "explanation": "op_unknown is executed on an opcode of concrete length 0..6 with symbolic bytes, an argument list of "
                   "concrete arity 0..2 whose items are atoms of SYMBOLIC LENGTH (length-only atoms through the hook "
                   "Allocator::verif_atom_span) or a pair at a symbolic position, a symbolic budget and either cost model, "
                   "and compared with the published rule evaluated without wrapping or early exits.",
    "outside": "argument lists longer than 2 (3-argument obligations exhaust 40 GB in the solver); argument atoms of 2 MiB or more; "
               "strict-mode routing (ChiaDialect::op with NO_UNKNOWN_OPS) is checked under C07",
    "assumptions": ["atoms created by verif_atom_span have no backing bytes; op_unknown reads lengths only (a byte read "
                    "would fail natively at replay)"],
    "obligations": _c09_obs(),
}

import json as _json, os as _os
_SERDE = _json.load(open(_os.path.join(_os.path.dirname(_os.path.abspath(__file__)), "gen_serde_registry.json")))

def _tmpl_obs(kind, quick_filter=None):
    L = []
    for t in _SERDE[kind]:
        tier = "quick" if (quick_filter is None or quick_filter(t["harness"])) else "thorough"
        L.append(ob("serde::" + t["harness"], "byte-string template " + t["template"] + " (XX = any byte)",
                    "structure concrete, payload bytes symbolic; expected outcome computed by the generator's reference decoder",
                    timeout=900, checks="nomem", tier=tier))
    return L

_KERNEL_PREFIX = ob("serde::c15_prefix_roundtrip_all_sizes",
    "write_atom_encoding_prefix_with_size for EVERY size (full u64) and first byte: minimal prefix, decodes back to "
    "(prefix length, size) consuming exactly the prefix, sizes >= 2^34 rejected, atom_length_bits agrees",
    "all 2^64 sizes x 256 first bytes", timeout=600)
_KERNEL_DECODE = ob("serde::c16_decode_size_all_prefixes",
    "decode_size_with_offset for EVERY 7-byte prefix buffer and every available length 0..=6: value, offset, bytes consumed, "
    "rejection of truncated / oversized / 7-8 leading-ones prefixes with bad-encoding",
    "all 2^55 buffers x 7 lengths", timeout=600)

REGISTRY["C15"] = {
    "explanation": "Length-prefix kernel decided over its full range (this is the 'every length-prefix boundary up to 2^34-1' "
                   "clause; bodies are not materialised). Tree level: for byte-string templates whose structure is concrete and "
                   "whose payload bytes are symbolic, decode -> re-serialize is compared with the input (identical iff the "
                   "generator's reference decoder says the input is canonical), and both serialized-length functions must "
                   "report the bytes consumed.",
    "outside": "trees with more than one pair (two-pair templates exceeded 10 minutes), atoms with real bodies longer than 5 "
               "bytes, ObjectCache serialized_length (HashMap keyed), symbolic atoms of <= 4 bytes in the re-serialization check",
    "obligations": [_KERNEL_PREFIX,
        ob("serde_canon::c15_own_prefix_is_canonical_all_sizes", "is_canonical_atom accepts the serializer's own length prefix for EVERY atom size 2..2^34-1",
           "all sizes; prefix only (bodies are not materialised: is_canonical_atom seeks past them)", timeout=600),
        ob("serde_canon::c15_canonical_prefix_is_minimal", "is_canonical_atom accepts a length prefix iff it is the minimal one for its size (every 7-byte prefix buffer)",
           "all 2^55 prefix buffers", timeout=900),
    ] + [o for o in _tmpl_obs("classic") if "bad_" not in o["harness"]],
}
REGISTRY["C16"] = {
    "explanation": "decode_size_with_offset decided for every prefix buffer. Tree level: node_from_bytes, parse_triples, "
                   "serialized_length_from_bytes(_trusted) and is_canonical_serialization on byte-string templates (well-formed, "
                   "non-minimal prefixes, truncated, oversized, trailing bytes, stray back-reference markers): accept/reject, bytes "
                   "consumed, root triple, canonicity and allocation bounds against the outcome computed by a reference decoder "
                   "of the format (harness/gen_serde.py) for all payload values.",
    "outside": "fully symbolic buffers (symbolic structure makes the decoders' Vec stacks symbolic: 1-byte inputs did not "
               "finish in 20 minutes); tree_hash_from_stream and parse_triples(hash=true) (SHA-256) are not run; trees with more "
               "than one pair",
    "obligations": [_KERNEL_DECODE] + _tmpl_obs("classic"),
}
REGISTRY["C18"] = {
    "explanation": "node_from_bytes_backrefs, node_from_bytes_backrefs_old and serialized_length_from_bytes on templates with "
                   "back-references: every path 1..15 (all routes of up to 3 steps) and selected longer paths against three "
                   "stack shapes, references to references, empty/zero/leading-zero paths, truncated and malformed paths, "
                   "trailing bytes. Both decoders must produce exactly the tree computed by the generator's reference "
                   "decoder (compared through the classic serialization, for all payload values), leave identical pair "
                   "counts, and the length probe must report the bytes consumed; all three must reject what the reference rejects.",
    "outside": "symbolic paths (paths are enumerated, payloads are symbolic); stacks deeper than 2 entries; inputs longer than "
               "13 bytes; the error *kind* on rejection differs between the decoders by design and is not compared",
    "obligations": _tmpl_obs("backref", lambda h: any(k in h for k in ("_path1", "_path2", "_path3", "_path4", "_path5", "_path6", "_path7", "ref_", "two_refs", "atom_", "pair_", "consref_", "refref_1")) and not any(k in h for k in ("path10", "path11", "path12", "path13", "path14", "path15", "path16", "path17", "path20", "path23", "path24", "path31", "path32", "_s3_", "refref_2"))),
}

_GEN = _json.load(open(_os.path.join(_os.path.dirname(_os.path.abspath(__file__)), "gen_registry.json")))
def _opm_obs():
    return [ob("opm::" + t["harness"], f"operator {t['op']} on {t['shape']}: outcome (value, cost, error kind, budget behaviour) equals the reference model",
               "shape concrete; atom contents, budget (any u64) and cost-model flags symbolic", timeout=900, checks="nomem")
            for t in _GEN["opm"]]

_RP_OBS = [ob("rp::" + h, w, "program shape concrete; atom contents, budget (any u64, 0 = unlimited) and flags {NEW_COST_MODEL, NO_UNKNOWN_OPS, "
                "CANONICAL_INTS, ENABLE_GC, LIMIT_SOFTFORK} symbolic; Dialect = MiniDialect (real ChiaDialect for everything but the "
                "opcode table, which is restricted to the byte/structure operators)", timeout=1200, checks="nomem", fs_array=512)
           for h, w in [("rp_cons_quotes", "run_program of (c (q . X) (q . Y)): result, exact cost 91, success iff budget is 0 or >= 91, else CostExceeded; allocator counts"),
                        ("rp_if_true", "run_program of (i (q . C) (q . X) (q . Y)) with non-empty C"),
                        ("rp_if_nil", "run_program of (i (q . ()) (q . X) (q . Y))"),
                        ("rp_paths_cons", "run_program of (c 2 5) on environment (X Y): path lookups through the inline-integer fast path"),
                        ("rp_unknown_opcode", "run_program of (15 (q . X)): nil at cost 22 in consensus mode, Unimplemented in strict mode")]]

REGISTRY["C04"] = {
    "explanation": "Kernel level only: Allocator::maybe_restore_with_node, the value-preserving restore that ENABLE_GC adds to a run, "
                   "from a transparent checkpoint followed by 130 pairs (above the 1024-byte savings threshold) for four classes of "
                   "return value (older node, new view of old bytes, new pair, inline integer; a NEW heap atom did not finish): counts unchanged, NoReplace only for surviving nodes, Replace(n) with identical bytes for "
                   "invalidated atoms, Aborted for trees, never an internal error; all older nodes unchanged.",
    "outside": "whole runs with and without ENABLE_GC are not compared (run_program under ChiaDialect links the BLS/secp code and "
               "takes minutes per obligation just to build); nested checkpoints; the gc_candidate opcode list itself",
    "obligations": _RESTORE_OBS,
}
REGISTRY["C10"] = {
    "explanation": "Cost kernels with overflow exits decided over full ranges against the documented formulas in 128-bit arithmetic "
                   "(new-model div/divmod/mod, modpow both models), the unknown-operator cost functions (C09 harnesses, any lengths "
                   "below 2 MiB), and for the byte/structure operators the cost returned on symbolic arguments equals the reference "
                   "model's formula (if, c, f, r, l, =, >s, strlen, substr, concat, not, any, all; both cost models).",
    "outside": "arithmetic operators whose cost depends on bignum magnitudes (+ - * logand logior logxor ash lsh lognot new-model "
               "limbs), sha256/keccak/BLS/secp/coinid/sha256tree costs; docs/cost-model.md describes the new-model logand/logior/logxor "
               "charge as sign-dependent while the code always charges max(len, accumulator limbs) - noted, not decided here",
    "obligations": [
        ob("c10::c10_new_div_cost_all_lengths", "compute_new_div_cost = 1000 + 50 (a0+a1) + a0 a1 / 10 for all 32-bit lengths", "all 2^64 length pairs", timeout=900),
        ob("c10::c10_modpow_cost_lengths_below_4096", "compute_modpow_cost = documented formula, both models", "b, e, m < 4096", timeout=1500),
        ob("c10::c10_new_modpow_overflow_exits", "new-model modpow cost: exact value iff it fits 64 bits, else CostExceeded", "any 32-bit e, m; b = 0", timeout=900),
    ] + _opm_obs() + [o for o in _c09_obs() if o["tier"] == "quick" and "wrap" not in o["harness"]],
}
REGISTRY["C07"] = {
    "explanation": "Restriction flags read by the interpreter and dialect on the templates that finish: every run_program template runs "
                   "with a symbolic subset of {NO_UNKNOWN_OPS, CANONICAL_INTS, LIMIT_SOFTFORK, ENABLE_GC} and must give the same result "
                   "and cost for every subset, except the unknown-opcode template, which must succeed (nil, cost 22) without "
                   "NO_UNKNOWN_OPS and fail with Unimplemented with it. op_unknown never consults restriction flags (C09 harnesses "
                   "run with both cost models).",
    "outside": "LIMITS / DISABLE_OP size limits of * / divmod mod modpow g1/g2_multiply (their prologues sit behind bignum "
               "conversions that do not finish), opcode 60 gating and RELAXED_BLS (ChiaDialect::op links the BLS code), "
               "softfork argument errors and LIMIT_SOFTFORK depth (guard templates do not finish), LIMIT_HEAP (wheel side)",
    "obligations": _RP_OBS,
}
REGISTRY["C01"] = {
    "explanation": "Differential harness real operator vs reference model M (harness/src/opm.rs, written from the CLVM operator "
                   "definitions) for the byte/structure operators of the classic set on symbolic arguments: same value, same cost, "
                   "same error kind.",
    "outside": "arithmetic/bitwise operators (num-bigint arithmetic does not finish under CBMC even for 2-byte operands - measured), "
               "sha256, path lookups, the evaluation loop (composition of operators); M stands in for the Python clvm package, which "
               "is not installed here",
    "obligations": _opm_obs() + _RP_OBS,
}
REGISTRY["C03"] = {
    "explanation": "Representation independence for the modelled operators: the reference model M is a function of argument BYTES only, "
                   "and the same operators are decided on arguments in the heap-view representation and in the inline small-integer "
                   "representation with symbolic values (allocated last, see DESIGN 10.1), including two symbolic inline integers for "
                   "= and >s; agreement with M in every representation gives the same outcome across representations. "
                   "run_program templates: allocator counts after the run depend only on the program.",
    "outside": "heap-copied (concat) representation; arithmetic operators; heap history (earlier runs, restores) other than the "
               "harness's own pre-allocations; the validated-point cache",
    "obligations": [o for o in _opm_obs() if "_sym" in o["harness"] or "_c" in o["harness"].split("opm_")[1]] + _RP_OBS,
}
REGISTRY["C02"] = {
    "explanation": "Loop lemma on five run_program templates (exact cost, success iff budget 0 or >= cost, otherwise CostExceeded and nothing else) and operator lemma of the budget property: for the modelled operators the outcome under a symbolic budget equals the "
                   "model's, in which the budget is only compared with partial cost sums (so: same result and cost under every "
                   "succeeding budget, failure below it only with CostExceeded).",
    "outside": "programs beyond the five one-operator templates (apply and softfork templates did not finish in 15 minutes); "
               "operators without a model (arithmetic, hashing, crypto); grandfathered softfork guards",
    "obligations": _opm_obs() + _RP_OBS,
}
REGISTRY["C25"] = {
    "explanation": "Every operator harness runs with Rust panics, arithmetic-overflow, bounds and unwinding checks on; the C25/ "
                   "assertion states that no outcome is EvalErr::InternalError. Argument lists include pairs where atoms are expected "
                   "and wrong arities.",
    "outside": "run_program beyond the five one-operator templates; arithmetic operators on non-trivial operands; stack limits",
    "obligations": _opm_obs() + _RP_OBS + [o for o in _c09_obs() if o["tier"] == "quick" and "_1args_" in o["harness"]],
}

REGISTRY["PROBE"] = {"obligations": [ob("probe::probe_p%s" % n, "probe", "") for n in
    ("8_pre_inv", "9_pre_contents", "10_pre_only")]}
