"""Proof obligations per property. Each obligation is one Kani harness in /verif/harness/src/<mod>.rs.
fields: harness (module::fn), tier (quick|thorough; thorough tier runs both), timeout (s, per CBMC run),
checks ('default' = all Kani checks, 'nomem' = pointer/bounds checks off, panics/overflow/unwinding on),
unwind (override of the harness attribute), unwindset [(loop key, n)], features, what, bounds."""

COMMON_ASSUMPTIONS = [
    "Kani 0.68 MIR->goto translation, CBMC 6.11 symbolic execution and CaDiCaL are trusted",
    "stubs (harness/src/stubs.rs): RandomState::new -> fixed keys; Vec::reserve -> try_reserve with requests >= 1MiB "
    "reduced to 64 bytes; alloc::fmt::format -> empty String; rand thread_rng -> arbitrary values; "
    "__cpuid_count -> zeros (portable SHA-256 path)",
    "allocators are mem::forget-ed at harness end (drop glue not analysed)",
    "claims hold only within the bounds listed per obligation (atom bytes, list arity, tree pairs, unwind)",
]


def ob(harness, what, bounds, tier="quick", timeout=600, **kw):
    d = {"harness": harness, "what": what, "bounds": bounds, "tier": tier, "timeout": timeout}
    d.update(kw)
    return d


REGISTRY = {}

REGISTRY["SELFTEST"] = {
    "obligations": [
        ob("selftest::selftest_must_fail", "pipeline self-test: must be reported FAILED and replay natively", "u64"),
        ob("selftest::selftest_vacuous_cover", "pipeline self-test: unsatisfiable cover must be reported BROKEN", "u8"),
    ],
}

REGISTRY["C21"] = {
    "explanation": "write_varint/read_varint are executed symbolically for every value in [-2^55,2^55) and for "
                   "every 8-byte buffer (with every available length 0..8), against an arithmetic definition of the "
                   "format written from docs/serde-2026.md. This is the whole input space of the two functions, "
                   "not a sample; unwinding assertions prove the loop bounds (<= 8 iterations) sufficient.",
    "outside": "nothing inside the 56-bit range; values outside it make write_varint panic by documented contract",
    "obligations": [
        ob("c21::c21_encode_roundtrip_all_56bit",
           "every v in [-2^55,2^55): encoded length is the shortest, prefix declares the length, strict and lenient "
           "decode return v and consume exactly that many bytes",
           "all 2^56 values, strict symbolic; unwind 10", timeout=600),
        ob("c21::c21_decode_all_buffers",
           "every buffer: decode consumes exactly prefix-declared bytes, returns the denoted value, strict accepts "
           "iff minimal, minimal encodings re-encode to the same bytes, 0xFF and truncated inputs rejected",
           "all 2^64 8-byte buffers x available length 0..=8 x strict; unwind 10", timeout=900),
    ],
}

REGISTRY["C14"] = {
    "explanation": "Integer canonicity kernels are decided over their full domains (all byte strings <= 5 bytes, all "
                   "u32, all u64, all i64).",
    "outside": "new_number/new_malachite_number beyond 9 bytes; histories longer than the stated step count",
    "obligations": [
        ob("c14::c14_fits_in_small_atom_iff_minimal",
           "fits_in_small_atom(b)=Some(v) <=> b is the minimal two's complement encoding of 0<=v<2^26",
           "all byte strings of length 0..=5"),
        ob("c14::c14_len_for_value_all_u32", "len_for_value(v) = minimal encoding length", "all u32"),
        ob("c14::c14_new_u64_all_values",
           "new_u64(v): stored bytes are the minimal encoding, read back equal, small_number view iff v<2^26",
           "all u64", timeout=900),
        ob("c14::c14_new_i64_all_values",
           "new_i64(v): stored bytes are the minimal two's complement encoding, read back equal", "all i64",
           timeout=900),
    ],
}

REGISTRY["C29"] = {
    "explanation": "The real LimitedWriter and node_to_stream (the two pieces node_to_bytes_limit composes) are run "
                   "on symbolic trees with a symbolic limit and compared with the unlimited serializer: Ok(identical "
                   "bytes) iff len <= limit, otherwise exactly EvalErr::OutOfMemory, wherever the crossing byte falls "
                   "(cons marker, length prefix, atom body).",
    "outside": "trees with more than 2 pairs, atoms longer than 4 bytes with symbolic content; the back-reference "
               "serializer's search structure (HashMap keyed by SHA-256) is not encoded",
    "assumptions": ["output sink is a fixed-size buffer instead of Cursor<Vec<u8>> (Vec growth is not the subject)"],
    "obligations": [
        ob("c29::c29_classic_single_atom", "one atom, limit crossing in prefix or body",
           "atom 0..=4 symbolic bytes, limit 0..=6", timeout=600,
           unwindset=[("node_to_stream", 3), ("write_all", 3), ("FixedBuf", 7), ("fits_in_small_atom", 6)]),
        ob("c29::c29_classic_tree_2pairs", "all trees/DAGs, crossing on cons marker, prefix or body",
           "1..=2 pairs over two symbolic atoms of 0..=2 bytes, limit 0..=12", timeout=900,
           unwindset=[("node_to_stream", 9), ("write_all", 3), ("FixedBuf", 4), ("fits_in_small_atom", 6),
                      ("Pool", 4), ("check_limit", 14)]),
    ],
}

_ALLOC_STEPS = [
    ("c12::c12_step_new_atom", "new_atom of any content", "content 0..=5 symbolic bytes"),
    ("c12::c12_step_new_small_number", "new_small_number of any value", "all v < 2^26"),
    ("c12::c12_step_new_pair", "new_pair of any two existing nodes", "children among heap/view/inline/pair nodes"),
    ("c12::c12_step_add_ghost", "add_ghost_atom / add_ghost_pair of any amount", "amount 0..=125,000,000"),
    ("c12::c12_step_new_substr", "new_substr of a heap atom, a view and an inline atom", "all u32 bounds"),
    ("c12::c12_step_new_concat", "new_concat of 0..=3 terms of any representation, any declared size", "size 0..=32"),
    ("c12::c12_step_checkpoints", "checkpoint / batch of 5 allocations / full or transparent restore / one more allocation", "batch of 5"),
]
_PRE = ("pre-state: Allocator::new_limited(any limit in 7..=2^32-1), a 6-byte symbolic heap atom, a view of it with "
        "symbolic bounds, an inline small integer of symbolic value, a pair, add_ghost_atom/add_ghost_pair(any amount up "
        "to the cap) - i.e. any distance from each of the three caps")

REGISTRY["C12"] = {
    "explanation": "Inductive-step formulation: one allocator operation from a symbolic pre-state built through the public "
                   "API, counts compared with the three-counter reference model. " + _PRE,
    "outside": "atoms longer than 6 bytes, concat of more than 3 terms, sequences longer than the stated step "
               "(the step argument extends to histories because the pre-state ranges over all counter values)",
    "obligations": [ob(h, w, b + "; " + "unwind 8", timeout=900) for h, w, b in _ALLOC_STEPS],
}
REGISTRY["C13"] = {
    "explanation": "Same single-step harnesses as C12; the C13/ assertions state: an operation fails with the right error "
                   "only when completing it would exceed the cap, succeeds only when it would not, counts never exceed "
                   "caps afterwards, failed operations leave counts and existing contents unchanged. " + _PRE,
    "outside": "run_program-level allocation near caps (covered only through the operator harnesses)",
    "obligations": [ob(h, w, b + "; " + "unwind 8", timeout=900) for h, w, b in _ALLOC_STEPS],
}

REGISTRY["C09"] = {
    "explanation": "op_unknown is executed on a symbolic opcode of 0..=6 bytes, an argument list of up to 3 items each of "
                   "which is an atom of SYMBOLIC LENGTH (any u32, through the length-only hook Allocator::verif_atom_span) "
                   "or a pair, proper or improper terminator, a symbolic budget and either cost model, and compared with "
                   "the published rule evaluated in u128 arithmetic (no wrapping, no early exits).",
    "outside": "argument lists longer than 3; strict-mode routing is a separate obligation",
    "assumptions": ["atoms created by verif_atom_span have no backing bytes; op_unknown reads lengths only (a byte read "
                    "would fail natively at replay)"],
    "obligations": [
        ob("c09::c09_unknown_legacy_2args", "pre-hard-fork model, <=2 args", "opcode 0..=6 bytes, args <= 2, lengths any u32, budget any u64", timeout=900),
        ob("c09::c09_unknown_newmodel_2args", "NEW_COST_MODEL, <=2 args", "opcode 0..=6 bytes, args <= 2, lengths any u32, budget any u64", timeout=900),
        ob("c09::c09_unknown_legacy_3args", "pre-hard-fork model, <=3 args", "opcode 0..=6 bytes, args <= 3, lengths any u32", tier="thorough", timeout=3000),
        ob("c09::c09_unknown_newmodel_3args", "NEW_COST_MODEL, <=3 args", "opcode 0..=6 bytes, args <= 3, lengths any u32", tier="thorough", timeout=3000),
    ],
}

REGISTRY["PROBE"] = {"obligations": [ob("probe::probe_p%s" % n, "probe", "") for n in
    ("8_pre_inv", "9_pre_contents", "10_pre_only")]}
