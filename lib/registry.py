"""Proof obligations per property. Each obligation is one Kani harness in /verif/harness/src/<mod>.rs.
fields: harness (module::fn), tier (quick|thorough; thorough tier runs both), timeout (s, per CBMC run),
checks ('default' = all Kani checks, 'nomem' = pointer/bounds checks off, panics/overflow/unwinding on),
unwind (override of the harness attribute), unwindset [(loop key, n)], features, what, bounds."""

COMMON_ASSUMPTIONS = [
    "Kani 0.68 MIR->goto translation, CBMC 6.11 symbolic execution and CaDiCaL are trusted",
    "stubs (harness/src/stubs.rs): RandomState::new -> fixed keys; Vec::reserve -> try_reserve with requests >= 1MiB "
    "reduced to 64 bytes; alloc::fmt::format -> empty String; rand thread_rng -> arbitrary values; "
    "__cpuid_count -> zeros (portable SHA-256 path)",
    "allocators are mem::forget-ed at harness end (drop glue not analysed)",
    "claims hold only within the bounds listed per obligation (atom bytes, list arity, tree pairs, unwind)",
]


def ob(harness, what, bounds, tier="quick", timeout=600, **kw):
    d = {"harness": harness, "what": what, "bounds": bounds, "tier": tier, "timeout": timeout}
    d.update(kw)
    return d


REGISTRY = {}

REGISTRY["SELFTEST"] = {
    "obligations": [
        ob("selftest::selftest_must_fail", "pipeline self-test: must be reported FAILED and replay natively", "u64"),
        ob("selftest::selftest_vacuous_cover", "pipeline self-test: unsatisfiable cover must be reported BROKEN", "u8"),
    ],
}

REGISTRY["C21"] = {
    "explanation": "write_varint/read_varint are executed symbolically for every value in [-2^55,2^55) and for "
                   "every 8-byte buffer (with every available length 0..8), against an arithmetic definition of the "
                   "format written from docs/serde-2026.md. This is the whole input space of the two functions, "
                   "not a sample; unwinding assertions prove the loop bounds (<= 8 iterations) sufficient.",
    "outside": "nothing inside the 56-bit range; values outside it make write_varint panic by documented contract",
    "obligations": [
        ob("c21::c21_encode_roundtrip_all_56bit",
           "every v in [-2^55,2^55): encoded length is the shortest, prefix declares the length, strict and lenient "
           "decode return v and consume exactly that many bytes",
           "all 2^56 values, strict symbolic; unwind 10", timeout=600),
        ob("c21::c21_decode_all_buffers",
           "every buffer: decode consumes exactly prefix-declared bytes, returns the denoted value, strict accepts "
           "iff minimal, minimal encodings re-encode to the same bytes, 0xFF and truncated inputs rejected",
           "all 2^64 8-byte buffers x available length 0..=8 x strict; unwind 10", timeout=900),
    ],
}

REGISTRY["C14"] = {
    "explanation": "Integer canonicity kernels are decided over their full domains (all byte strings <= 5 bytes, all "
                   "u32, all u64, all i64).",
    "outside": "new_number/new_malachite_number beyond 9 bytes; histories longer than the stated step count",
    "obligations": [
        ob("c14::c14_fits_in_small_atom_iff_minimal",
           "fits_in_small_atom(b)=Some(v) <=> b is the minimal two's complement encoding of 0<=v<2^26",
           "all byte strings of length 0..=5"),
        ob("c14::c14_len_for_value_all_u32", "len_for_value(v) = minimal encoding length", "all u32"),
        ob("c14::c14_new_u64_all_values",
           "new_u64(v): stored bytes are the minimal encoding, read back equal, small_number view iff v<2^26",
           "all u64", timeout=900),
        ob("c14::c14_new_i64_all_values",
           "new_i64(v): stored bytes are the minimal two's complement encoding, read back equal", "all i64",
           timeout=900),
    ],
}
