"""Proof obligations per property. Each obligation is one Kani harness in /verif/harness/src/<mod>.rs.
fields: harness (module::fn), tier (quick|thorough; thorough tier runs both), timeout (s, per CBMC run),
checks ('default' = all Kani checks, 'nomem' = pointer/bounds checks off, panics/overflow/unwinding on),
unwind (override of the harness attribute), unwindset [(loop key, n)], features, what, bounds."""

COMMON_ASSUMPTIONS = [
    "Kani 0.68 MIR->goto translation, CBMC 6.11 symbolic execution and CaDiCaL are trusted",
    "stubs (harness/src/stubs.rs): RandomState::new -> fixed keys; Vec::reserve -> try_reserve with requests >= 1MiB "
    "reduced to 64 bytes; alloc::fmt::format -> empty String; rand thread_rng -> arbitrary values; "
    "__cpuid_count -> zeros (portable SHA-256 path)",
    "allocators are mem::forget-ed at harness end (drop glue not analysed)",
    "claims hold only within the bounds listed per obligation (atom bytes, list arity, tree pairs, unwind)",
]


def ob(harness, what, bounds, tier="quick", timeout=600, **kw):
    d = {"harness": harness, "what": what, "bounds": bounds, "tier": tier, "timeout": timeout}
    d.update(kw)
    return d


REGISTRY = {}

REGISTRY["SELFTEST"] = {
    "obligations": [
        ob("selftest::selftest_must_fail", "pipeline self-test: must be reported FAILED and replay natively", "u64"),
        ob("selftest::selftest_vacuous_cover", "pipeline self-test: unsatisfiable cover must be reported BROKEN", "u8"),
        ob("selftest::selftest_array_any", "pipeline self-test: array-valued nondeterminism must replay natively", "[u8;3],[u16;2],bool"),
    ],
}

REGISTRY["C21"] = {
    "explanation": "write_varint/read_varint are executed symbolically for every value in [-2^55,2^55) and for "
                   "every 8-byte buffer (with every available length 0..8), against an arithmetic definition of the "
                   "format written from docs/serde-2026.md. This is the whole input space of the two functions, "
                   "not a sample; unwinding assertions prove the loop bounds (<= 8 iterations) sufficient.",
    "outside": "nothing inside the 56-bit range; values outside it make write_varint panic by documented contract",
    "obligations": [
        ob("c21::c21_encode_roundtrip_all_56bit",
           "every v in [-2^55,2^55): encoded length is the shortest, prefix declares the length, strict and lenient "
           "decode return v and consume exactly that many bytes",
           "all 2^56 values, strict symbolic; unwind 10", timeout=600),
        ob("c21::c21_decode_all_buffers",
           "every buffer: decode consumes exactly prefix-declared bytes, returns the denoted value, strict accepts "
           "iff minimal, minimal encodings re-encode to the same bytes, 0xFF and truncated inputs rejected",
           "all 2^64 8-byte buffers x available length 0..=8 x strict; unwind 10", timeout=900),
    ],
}

REGISTRY["C14"] = {
    "explanation": "Integer canonicity kernels are decided over their full domains (all byte strings <= 5 bytes, all "
                   "u32, all u64, all i64).",
    "outside": "new_number/new_malachite_number beyond 9 bytes; histories longer than the stated step count",
    "obligations": [
        ob("c14::c14_fits_in_small_atom_iff_minimal",
           "fits_in_small_atom(b)=Some(v) <=> b is the minimal two's complement encoding of 0<=v<2^26",
           "all byte strings of length 0..=5"),
        ob("c14::c14_len_for_value_all_u32", "len_for_value(v) = minimal encoding length", "all u32"),
        ob("c14::c14_new_u64_all_values",
           "new_u64(v): stored bytes are the minimal encoding, read back equal, small_number view iff v<2^26",
           "all u64", timeout=900),
        ob("c14::c14_new_i64_all_values",
           "new_i64(v): stored bytes are the minimal two's complement encoding, read back equal", "all i64",
           timeout=900),
    ] + [ob(h, "C14/ assertions of the allocator step harness: " + w, "one operation from the symbolic pre-state",
            timeout=1200, checks="nomem")
         for h, w in [("c12::c12_step_new_atom%d_contents" % n, "new_atom bytes read back; earlier nodes unchanged") for n in range(6)] +
                     [("c12::c12_step_new_small_number_contents", "small number reads back; earlier nodes unchanged"),
                      ("c12::c12_step_new_pair_contents", "pair children read back; earlier nodes unchanged"),
                      ("c12::c12_step_new_substr_heap_contents", "substr bytes = parent slice"),
                      ("c12::c12_step_new_substr_view_contents", "substr of a view: bytes = parent slice"),
                      ("c12::c12_step_new_substr_inline_contents", "substr of an inline integer: bytes = parent slice"),
                      ("c12::c12_step_checkpoint_full_contents", "nodes older than a checkpoint survive a restore and later allocations"),
                      ("c12::c12_step_checkpoint_transparent_contents", "nodes older than a transparent checkpoint survive")]],
}

REGISTRY["C29"] = {
    "explanation": "The real LimitedWriter, write_atom and node_to_stream (the pieces node_to_bytes_limit composes; "
                   "node_to_bytes_backrefs_limit composes the same LimitedWriter, write_atom and f.write_all(&[marker])? "
                   "pieces) are run with a symbolic limit on symbolic contents and compared with the unlimited "
                   "serializer: Ok(identical bytes) iff len <= limit, otherwise exactly EvalErr::OutOfMemory, wherever "
                   "the crossing byte falls (cons marker, length prefix, atom body).",
    "outside": "atoms longer than 3 bytes (prefixes longer than one byte), trees with more than 2 pairs; the "
               "back-reference serializer's search structure (HashMap keyed by SHA-256) is not encoded, only the "
               "writer/marker pieces it shares with the classic serializer",
    "assumptions": ["output sink is a fixed-size buffer instead of Cursor<Vec<u8>> (Vec growth is not the subject)"],
    "obligations": [
        ob("c29::c29_atom_len0", "write_atom of the empty atom through LimitedWriter", "limit 0..=4", timeout=600, checks="nomem"),
        ob("c29::c29_atom_len1", "one-byte atom, any byte (with and without 0x81 prefix)", "limit 0..=5", timeout=600, checks="nomem"),
        ob("c29::c29_atom_len2", "two-byte atom, any content: crossing in prefix or body", "limit 0..=6", timeout=600, checks="nomem"),
        ob("c29::c29_atom_len3", "three-byte atom, any content", "limit 0..=7", timeout=600, checks="nomem"),
        ob("c29::c29_tree_pair", "(x . y), x 2-byte view, y 1-byte view: crossing on cons marker, prefix, body",
           "limit 0..=6, contents symbolic", timeout=1500, checks="nomem", unwind=12),
        ob("c29::c29_tree_left_nested", "((x . y) . nil)", "limit 0..=8", tier="thorough", timeout=2400, checks="nomem", unwind=12),
        ob("c29::c29_tree_right_nested_inline", "(x . (0x1234 . nil)) with an inline integer leaf", "limit 0..=10",
           tier="thorough", timeout=2400, checks="nomem", unwind=12),
        ob("c29::c29_tree_shared", "((y . 5) . (y . 5)) with a shared sub-tree", "limit 0..=10", tier="thorough",
           timeout=2400, checks="nomem", unwind=12),
    ],
}

_PRE = ("pre-state built through the public API: a 6-byte symbolic heap atom, a view of it (symbolic bounds in the "
        "_limits variants), an inline small integer of symbolic value, a pair, add_ghost_atom/add_ghost_pair(any "
        "amount up to the cap) - any distance from the atom and pair caps; heap: concrete limit 47 with a symbolic "
        "number of 6-byte single-term concats so that heap_size is anywhere in 7..=47 (_limits variants), or a "
        "concrete limit 11..64 with every pre-existing node re-read afterwards (_contents variants)")

def _steps():
    L = []
    for n in range(6):
        L.append((f"c12::c12_step_new_atom{n}", f"new_atom of any {n}-byte content"))
    L += [("c12::c12_step_new_small_number", "new_small_number of any value < 2^26"),
          ("c12::c12_step_new_pair", "new_pair of any two existing nodes (heap/view/inline/pair)"),
          ("c12::c12_step_add_ghost", "add_ghost_atom / add_ghost_pair of any amount <= 125,000,000"),
          ("c12::c12_step_new_substr_heap", "new_substr of a heap atom, all u32 bounds"),
          ("c12::c12_step_new_substr_view", "new_substr of a view, all u32 bounds"),
          ("c12::c12_step_new_substr_inline", "new_substr of an inline small integer, all u32 bounds"),
          ("c12::c12_step_checkpoint_full", "checkpoint, batch of allocations, restore_checkpoint, one more allocation"),
          ("c12::c12_step_checkpoint_transparent", "transparent_checkpoint, batch, restore_transparent_checkpoint, one more allocation")]
    out = []
    for h, w in L:
        out.append((h + "_limits", w + " [near the caps]"))
        out.append((h + "_contents", w + " [existing contents re-read]"))
    for h, w in [("c12::c12_step_new_concat0_limits", "new_concat of no terms, any declared size"),
                 ("c12::c12_step_new_concat0_contents", "new_concat of no terms [contents]"),
                 ("c12::c12_step_new_concat1_heap_limits", "new_concat of one heap atom"),
                 ("c12::c12_step_new_concat1_view_limits", "new_concat of one view"),
                 ("c12::c12_step_new_concat1_inline_limits", "new_concat of one inline integer"),
                 ("c12::c12_step_new_concat1_inline_contents", "new_concat of one inline integer [contents]"),
                 ("c12::c12_step_new_concat2_heap_inline_limits", "new_concat(heap, inline), any declared size <= 32"),
                 ("c12::c12_step_new_concat2_inline_view_limits", "new_concat(inline, view)"),
                 ("c12::c12_step_new_concat2_view_heap_limits", "new_concat(view, heap)"),
                 ("c12::c12_step_new_concat2_inline_inline_limits", "new_concat(inline, inline)"),
                 ("c12::c12_step_new_concat3_heap_view_inline_limits", "new_concat(heap, view, inline)")]:
        out.append((h, w))
    return out

_ALLOC_OBS = [ob(h, w, "one operation from the symbolic pre-state; unwind 8", timeout=1200, checks="nomem") for h, w in _steps()]

REGISTRY["C12"] = {
    "explanation": "Inductive-step formulation: one allocator operation from a symbolic pre-state, counts compared with the "
                   "three-counter reference model (every atom a separately stored byte string). " + _PRE,
    "outside": "atoms longer than 6 bytes, concat of more than 3 terms; heap limits other than the concrete ones used; "
               "maybe_restore_with_node is checked under C04. The step argument extends to histories because the "
               "pre-state ranges over all counter values; that extension is an argument, not a solver result.",
    "obligations": _ALLOC_OBS,
}
REGISTRY["C13"] = {
    "explanation": "Same single-step harnesses as C12 (verdicts are shared through the goto-binary cache); the C13/ "
                   "assertions state: an operation fails with the right error only when completing it would exceed the cap, "
                   "succeeds only when it would not, counts never exceed caps afterwards, failed operations leave counts and "
                   "existing contents unchanged. " + _PRE,
    "outside": "heap limits other than the concrete values 11..64 (distance to the limit is symbolic, the limit is not); "
               "run_program-level allocation near caps (only through the allocator operations it calls)",
    "obligations": _ALLOC_OBS,
}

REGISTRY["C09"] = {
    "explanation": "op_unknown is executed on a symbolic opcode of 0..=6 bytes, an argument list of up to 3 items each of "
                   "which is an atom of SYMBOLIC LENGTH (any u32, through the length-only hook Allocator::verif_atom_span) "
                   "or a pair, proper or improper terminator, a symbolic budget and either cost model, and compared with "
                   "the published rule evaluated in u128 arithmetic (no wrapping, no early exits).",
    "outside": "argument lists longer than 3; strict-mode routing is a separate obligation",
    "assumptions": ["atoms created by verif_atom_span have no backing bytes; op_unknown reads lengths only (a byte read "
                    "would fail natively at replay)"],
    "obligations": [
        ob("c09::c09_unknown_legacy_2args", "pre-hard-fork model, <=2 args", "opcode 0..=6 bytes, args <= 2, lengths any u32, budget any u64", timeout=900),
        ob("c09::c09_unknown_newmodel_2args", "NEW_COST_MODEL, <=2 args", "opcode 0..=6 bytes, args <= 2, lengths any u32, budget any u64", timeout=900),
        ob("c09::c09_unknown_legacy_3args", "pre-hard-fork model, <=3 args", "opcode 0..=6 bytes, args <= 3, lengths any u32", tier="thorough", timeout=3000),
        ob("c09::c09_unknown_newmodel_3args", "NEW_COST_MODEL, <=3 args", "opcode 0..=6 bytes, args <= 3, lengths any u32", tier="thorough", timeout=3000),
    ],
}

REGISTRY["PROBE"] = {"obligations": [ob("probe::probe_p%s" % n, "probe", "") for n in
    ("8_pre_inv", "9_pre_contents", "10_pre_only")]}
