//! Native replay of a solver counterexample: `replay <module::harness> <values.json>`
//! values.json = [[b0,b1,..],[..],..] in the order Kani's concrete playback prints them.
//! exit 0: harness ran to completion (counterexample NOT reproduced)
//! exit 101 (panic): an assertion of the harness failed natively (reproduced)
//! exit 3: the concrete values do not fit the native execution (encoding/stub mismatch)
#[cfg(feature = "replay")]
fn main() {
    let args: Vec<String> = std::env::args().collect();
    let name = &args[1];
    let txt = std::fs::read_to_string(&args[2]).unwrap();
    // minimal JSON parse of [[..],[..]]
    let mut vals: Vec<Vec<u8>> = Vec::new();
    let mut cur: Option<Vec<u8>> = None;
    let mut num = String::new();
    let mut depth = 0;
    for ch in txt.chars() {
        match ch {
            '[' => {
                depth += 1;
                if depth == 2 {
                    cur = Some(Vec::new());
                }
            }
            ']' | ',' => {
                if !num.is_empty() {
                    cur.as_mut().unwrap().push(num.parse::<u8>().unwrap());
                    num.clear();
                }
                if ch == ']' {
                    if depth == 2 {
                        vals.push(cur.take().unwrap());
                    }
                    depth -= 1;
                }
            }
            c if c.is_ascii_digit() => num.push(c),
            _ => {}
        }
    }
    clvmr_verif::kani_shim::load(vals);
    if !clvmr_verif::dispatch(name) {
        eprintln!("unknown harness {name}");
        std::process::exit(4);
    }
    println!("REPLAY-COMPLETED remaining_values={}", clvmr_verif::kani_shim::remaining());
}

#[cfg(not(feature = "replay"))]
fn main() {}
