//! C14 — nodes immutable, integers canonically encoded.

use crate::util::*;
use crate::util::min_len_i128;
use clvmr::allocator::{Allocator, NodePtr, fits_in_small_atom, len_for_value};

/// spec: bytes `b[..len]` are the minimal big-endian two's complement encoding of v, 0 <= v < 2^26
fn spec_small(b: &[u8; 5], len: usize) -> Option<u32> {
    if len > 4 {
        return None;
    }
    // value as signed
    let mut v: i128 = 0;
    if len > 0 && (b[0] & 0x80) != 0 {
        v = -1;
    }
    let mut i = 0;
    while i < len {
        v = (v << 8) | b[i] as i128;
        i += 1;
    }
    if v < 0 || v >= (1 << 26) {
        return None;
    }
    if min_len_i128(v) != len {
        return None;
    }
    Some(v as u32)
}

// (a) fits_in_small_atom(b) is Some(v) <=> b is the minimal encoding of v < 2^26, all b of <= 5 bytes
kernel_proof! {
    #[kani::unwind(17)]
    fn c14_fits_in_small_atom_iff_minimal() {
        let b: [u8; 5] = kani::any();
        let len: usize = kani::any();
        kani::assume(len <= 5);
        let got = fits_in_small_atom(&b[..len]);
        let want = spec_small(&b, len);
        assert!(got == want);
        if let Some(v) = got {
            assert!(len_for_value(v) == len);
            assert!(v < (1 << 26));
        }
        kani::cover!(got.is_some() && len == 4);
        kani::cover!(got.is_none() && len == 4);
        kani::cover!(got.is_none() && len == 2);
        kani::cover!(got.is_some() && len == 0);
    }
}

// len_for_value = minimal length for every u32
kernel_proof! {
    #[kani::unwind(17)]
    fn c14_len_for_value_all_u32() {
        let v: u32 = kani::any();
        assert!(len_for_value(v) == min_len_i128(v as i128));
    }
}

fn read_signed(a: &Allocator, n: NodePtr) -> (i128, usize) {
    let at = a.atom(n);
    let b = at.as_ref();
    let len = b.len();
    let mut v: i128 = 0;
    if len > 0 && (b[0] & 0x80) != 0 {
        v = -1;
    }
    let mut i = 0;
    while i < len {
        v = (v << 8) | b[i] as i128;
        i += 1;
    }
    (v, len)
}

// (b) new_u64 for ALL u64: stored bytes = minimal two's complement, value reads back
proof! {
    #[kani::unwind(17)]
    fn c14_new_u64_all_values() {
        let mut a = Allocator::new();
        let v: u64 = kani::any();
        let n = a.new_u64(v).unwrap();
        let (got, len) = read_signed(&a, n);
        assert!(got == v as i128);
        assert!(len == min_len_i128(v as i128));
        assert!(a.atom_len(n) == len);
        // small-integer view exists exactly when value < 2^26
        assert!(a.small_number(n) == if v < (1 << 26) { Some(v as u32) } else { None });
        kani::cover!(len == 9);
        kani::cover!(len == 0);
        kani::cover!(len == 4 && v >= (1 << 26));
        std::mem::forget(a);
    }
}

proof! {
    #[kani::unwind(17)]
    fn c14_new_i64_all_values() {
        let mut a = Allocator::new();
        let v: i64 = kani::any();
        let n = a.new_i64(v).unwrap();
        let (got, len) = read_signed(&a, n);
        assert!(got == v as i128);
        assert!(len == min_len_i128(v as i128));
        assert!(a.small_number(n) == if v >= 0 && v < (1 << 26) { Some(v as u32) } else { None });
        kani::cover!(len == 8 && v < 0);
        kani::cover!(len == 1 && v < 0);
        std::mem::forget(a);
    }
}
