//! Proof harnesses over the real `clvmr` crate (path dependency on /repo).
//!
//! * under `cargo kani` (`cfg(kani)`) every `proof!{}` is a `#[kani::proof]` harness with the
//!   environment stubs of `stubs.rs` applied;
//! * with `--features replay` (native build, the repository's own toolchain, no stubs) every
//!   harness is an ordinary function and `kani::any()` is fed from a solver counterexample
//!   (`kani_shim.rs`), so a counterexample is re-executed against the real build before it is
//!   reported.
#![cfg_attr(kani, feature(allocator_api))]
#![allow(clippy::all)]
#![allow(dead_code)]
#![allow(unused_imports)]
#![allow(unused_macros)]

#[cfg(kani)]
pub mod stubs;

#[cfg(all(not(kani), feature = "replay"))]
pub mod kani_shim;

#[cfg(any(kani, feature = "replay"))]
#[macro_use]
pub mod util;

#[cfg(any(kani, feature = "replay"))]
include!("mods.rs");

#[cfg(all(not(kani), feature = "replay"))]
include!(concat!(env!("OUT_DIR"), "/dispatch.rs"));
