//! C10 — cost kernels with overflow exits, decided over their full input ranges against the documented
//! formulas evaluated in u128 (docs/cost-model.md "divmod", "modpow"; constants from the doc comments).
use crate::util::*;
use clvmr::allocator::NodePtr;
use clvmr::error::EvalErr;
use clvmr::more_ops::verif_hooks::{compute_modpow_cost, compute_new_div_cost};

// new-model div/divmod/mod: 1000 + (a0 + a1) * 50 + (a0 * a1) / 10 for every pair of atom lengths < 2^32
kernel_proof! {
    fn c10_new_div_cost_all_lengths() {
        let a0: u32 = kani::any();
        let a1: u32 = kani::any();
        let r = compute_new_div_cost(a0 as usize, a1 as usize);
        let expect: u128 = 1000 + (a0 as u128 + a1 as u128) * 50 + (a0 as u128 * a1 as u128) / 10;
        match r {
            Ok(c) => assert!(c as u128 == expect, "C10/new-div-cost-equals-documented-formula"),
            Err(_) => assert!(false, "C10/new-div-cost-cannot-overflow-for-32-bit-lengths"),
        }
        kani::cover!(a0 == u32::MAX && a1 == u32::MAX, "largest lengths");
    }
}

// modpow, both models, lengths below 4096 bytes (the consensus limits are 256 bytes pre-hard-fork):
// legacy 17000 + 38 b + 3 e^2 + 21 m^2; new 17000 + e * 8 * (m^2 + 4000) + b * m
kernel_proof! {
    fn c10_modpow_cost_lengths_below_4096() {
        let b: u16 = kani::any();
        let e: u16 = kani::any();
        let m: u16 = kani::any();
        kani::assume(b < 4096 && e < 4096 && m < 4096);
        let new_model: bool = kani::any();
        let r = compute_modpow_cost(b as usize, e as usize, m as usize, new_model);
        let (b, e, m) = (b as u64, e as u64, m as u64);
        let expect: u64 = if new_model { 17000 + e * 8 * (m * m + 4000) + b * m } else { 17000 + 38 * b + 3 * e * e + 21 * m * m };
        match r {
            Ok(c) => assert!(c == expect, "C10/modpow-cost-equals-documented-formula"),
            Err(_) => assert!(false, "C10/modpow-cost-cannot-fail-for-small-lengths"),
        }
        kani::cover!(new_model && m == 4095, "new model, largest modulus");
        kani::cover!(!new_model && e == 4095, "legacy model, largest exponent");
    }
}

// new model overflow exits: with an empty base, the cost is 17000 + e * 8 * (m^2 + 4000); the function must
// return it exactly when it fits in 64 bits and fail with CostExceeded otherwise (any 32-bit lengths)
kernel_proof! {
    fn c10_new_modpow_overflow_exits() {
        let e: u32 = kani::any();
        let m: u32 = kani::any();
        let r = compute_modpow_cost(0, e as usize, m as usize, true);
        let inner: u128 = m as u128 * m as u128 + 4000;      // < 2^64 + 4000
        let expect: u128 = 17000 + (e as u128 * 8) * inner;
        let fits = inner <= u64::MAX as u128 && expect <= u64::MAX as u128;
        match r {
            Ok(c) => {
                assert!(fits, "C10/new-modpow-cost-overflow-must-fail");
                assert!(c as u128 == expect, "C10/new-modpow-cost-equals-documented-formula");
            }
            Err(err) => {
                assert!(matches!(err, EvalErr::CostExceeded), "C10/new-modpow-overflow-is-cost-exceeded");
                assert!(!fits, "C10/new-modpow-fails-only-on-overflow");
            }
        }
    }
}

// strlen on an atom of ANY length below 2^24 (length-only atom through the hook): cost = 173 + len + 10 * (bytes of
// the result, the minimal two's complement encoding of len)
proof! {
    #[kani::unwind(12)]
    fn c10_strlen_any_length() {
        use clvmr::allocator::Allocator;
        use clvmr::chia_dialect::ClvmFlags;
        use clvmr::reduction::Reduction;
        let mut a = Allocator::new();
        let len: u32 = kani::any();
        kani::assume(len < (1 << 24));
        let x = a.verif_atom_span(0, len);
        let nil = a.nil();
        let args = a.new_pair(x, nil).unwrap();
        let r = clvmr::more_ops::op_strlen(&mut a, args, u64::MAX, ClvmFlags::empty());
        let rlen: u64 = if len == 0 { 0 } else if len < 0x80 { 1 } else if len < 0x8000 { 2 } else if len < 0x80_0000 { 3 } else { 4 };
        match r {
            Ok(Reduction(c, v)) => {
                assert!(c == 173 + len as u64 + 10 * rlen, "C10/strlen-cost-equals-documented-formula");
                assert!(a.atom_len(v) as u64 == rlen, "C01/strlen-result-is-the-minimal-encoding-of-the-length");
            }
            Err(_) => assert!(false, "C10/strlen-of-an-atom-must-succeed"),
        }
        kani::cover!(len == 128, "length needing a leading zero byte");
        std::mem::forget(a);
    }
}
