//! Shared machinery for operator-level harnesses: argument lists of concrete *shape* (arity,
//! representation, length) and symbolic *content*, outcome comparison, two-run lemmas.
use crate::util::*;
use clvmr::allocator::{Allocator, NodePtr, NodeVisitor, SExp};
use clvmr::chia_dialect::ClvmFlags;
use clvmr::cost::Cost;
use clvmr::error::EvalErr;
use clvmr::reduction::{Reduction, Response};

pub type OpFn = fn(&mut Allocator, NodePtr, Cost, ClvmFlags) -> Response;

/// shape of one argument (concrete per harness); contents are symbolic
#[derive(Clone, Copy)]
pub enum A {
    /// inline small integer of symbolic value < 2^26 (symbolic length 0..=4, no heap bytes)
    Small,
    /// inline small integer, concrete value
    SmallC(u32),
    /// view of L symbolic bytes of the shared heap atom (heap representation, concrete length)
    View(usize),
    /// nil
    Nil,
    /// a pair (where an atom is expected)
    Pair,
}

pub struct Env {
    pub a: Allocator,
    pub base: NodePtr,
    pub bytes: [u8; 16],
    used: usize,
}

impl Env {
    pub fn new() -> Env {
        let mut a = Allocator::new();
        let bytes: [u8; 16] = kani::any();
        let base = a.new_atom(&bytes).unwrap();
        Env { a, base, bytes, used: 0 }
    }
    pub fn arg(&mut self, s: A) -> NodePtr {
        match s {
            A::Small => {
                let v: u32 = kani::any();
                kani::assume(v < (1 << 26));
                self.a.new_small_number(v).unwrap()
            }
            A::SmallC(v) => self.a.new_small_number(v).unwrap(),
            A::View(l) => {
                let s = self.used as u32;
                self.used += l;
                self.a.new_substr(self.base, s, s + l as u32).unwrap()
            }
            A::Nil => self.a.nil(),
            A::Pair => {
                let one = self.a.one();
                self.a.new_pair(one, one).unwrap()
            }
        }
    }
    /// proper list of the given argument shapes
    pub fn list(&mut self, specs: &[A]) -> NodePtr {
        let mut nodes = [NodePtr::NIL; 4];
        let mut i = 0;
        while i < specs.len() {
            nodes[i] = self.arg(specs[i]);
            i += 1;
        }
        let mut l = self.a.nil();
        let mut i = specs.len();
        while i > 0 {
            i -= 1;
            l = self.a.new_pair(nodes[i], l).unwrap();
        }
        l
    }
}

/// symbolic flag set within `mask`
pub fn any_flags(mask: ClvmFlags) -> ClvmFlags {
    let b: u32 = kani::any();
    ClvmFlags::from_bits_truncate(b & mask.bits())
}

pub fn kind(e: &EvalErr) -> std::mem::Discriminant<EvalErr> {
    std::mem::discriminant(e)
}
pub fn is_internal(e: &EvalErr) -> bool {
    matches!(e, EvalErr::InternalError(_, _))
}

/// atoms equal as byte strings (any representation), bounded by MAXB bytes
pub fn atom_bytes_eq<const MAXB: usize>(a: &Allocator, x: NodePtr, y: NodePtr) -> bool {
    let ax = a.atom(x);
    let ay = a.atom(y);
    let bx = ax.as_ref();
    let by = ay.as_ref();
    if bx.len() != by.len() {
        return false;
    }
    assert!(bx.len() <= MAXB, "harness bound: result atom longer than the comparison bound");
    let mut i = 0;
    while i < bx.len() {
        if bx[i] != by[i] {
            return false;
        }
        i += 1;
    }
    true
}

/// structural equality of two result trees, pairs nested at most `depth` deep
pub fn tree_eq<const MAXB: usize>(a: &Allocator, x: NodePtr, y: NodePtr, depth: u32) -> bool {
    match (a.sexp(x), a.sexp(y)) {
        (SExp::Atom, SExp::Atom) => atom_bytes_eq::<MAXB>(a, x, y),
        (SExp::Pair(xl, xr), SExp::Pair(yl, yr)) => {
            if x == y {
                return true;
            }
            assert!(depth > 0, "harness bound: result tree deeper than the comparison bound");
            tree_eq::<MAXB>(a, xl, yl, depth - 1) && tree_eq::<MAXB>(a, xr, yr, depth - 1)
        }
        _ => false,
    }
}

/// C02 operator lemma + C25: the budget flows only into cost checks.
/// `unl` = outcome with the unlimited budget, `lim` = outcome with budget `b`.
pub fn check_budget_lemma<const MAXB: usize>(a: &Allocator, unl: &Response, lim: &Response, b: Cost) {
    match (unl, lim) {
        (Ok(Reduction(c1, v1)), Ok(Reduction(c2, v2))) => {
            assert!(c1 == c2, "C02/op-cost-independent-of-budget");
            assert!(tree_eq::<MAXB>(a, *v1, *v2, 2), "C02/op-result-independent-of-budget");
            kani::cover!(true, "succeeds under both budgets");
        }
        (Ok(Reduction(c1, _)), Err(e)) => {
            assert!(matches!(e, EvalErr::CostExceeded), "C02/op-smaller-budget-fails-only-with-cost-exceeded");
            assert!(b < *c1, "C02/op-budget-at-least-cost-must-succeed");
        }
        (Err(_), Ok(_)) => assert!(false, "C02/op-succeeding-budgets-upward-closed"),
        (Err(e1), Err(e2)) => {
            assert!(kind(e1) == kind(e2) || matches!(e2, EvalErr::CostExceeded), "C02/op-error-kind-independent-of-budget");
        }
    }
    if let Err(e) = unl {
        assert!(!is_internal(e), "C25/op-never-internal-error");
    }
    if let Err(e) = lim {
        assert!(!is_internal(e), "C25/op-never-internal-error");
    }
}

/// two-run comparison: identical outcome (C03 representation / C05 / C06 backend).
/// A macro so that the assertion labels are string literals (Kani reports literal messages only).
#[macro_export]
macro_rules! same_outcome {
    ($a:expr, $r1:expr, $r2:expr, $maxb:literal, $lc:literal, $lv:literal, $le:literal) => {
        match (&$r1, &$r2) {
            (Ok(clvmr::reduction::Reduction(c1, v1)), Ok(clvmr::reduction::Reduction(c2, v2))) => {
                assert!(c1 == c2, $lc);
                assert!($crate::ops::tree_eq::<$maxb>($a, *v1, *v2, 2), $lv);
                kani::cover!(true, "both runs succeed");
            }
            (Err(e1), Err(e2)) => {
                assert!($crate::ops::kind(e1) == $crate::ops::kind(e2), $le);
            }
            _ => assert!(false, $le),
        }
    };
}
