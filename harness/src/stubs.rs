//! Environment stubs (DESIGN.md §2.2). None of these replaces a function of clvmr itself.
//! Applied per harness with `#[kani::stub(path, stubs::name)]`.

use std::rc::Rc;

/// `std::hash::RandomState::new` — getrandom is unsupported under Kani.
pub fn random_state_new() -> std::hash::RandomState {
    unsafe { std::mem::transmute::<[u64; 2], std::hash::RandomState>([0u64; 2]) }
}

/// `Vec::reserve` — real `try_reserve`, but large requests are reduced: >= 1 MiB to 64 elements,
/// >= 64 to 8 elements (Allocator::new reserves 1 MiB of bytes and 256 atom / pair slots). Small
/// objects keep CBMC's per-element constant propagation (arrays <= 64 elements are field-sensitive),
/// so nodes stored in the allocator and read back stay concrete for symex.
/// `reserve` is only a capacity hint; growth still goes through the real amortised path.
pub fn vec_reserve<T, A: std::alloc::Allocator>(v: &mut Vec<T, A>, additional: usize) {
    let n = if additional >= (1 << 20) { 64 } else if additional >= 64 { 8 } else { additional };
    let _ = v.try_reserve(n);
}

/// `alloc::fmt::format` — error paths build messages with format!; messages are never compared.
pub fn fmt_format(_args: std::fmt::Arguments<'_>) -> String {
    String::new()
}

/// `rand::rngs::thread::rng` — ChaCha SIMD makes the Kani compiler ICE.
pub fn thread_rng() -> rand::rngs::ThreadRng {
    use rand::rngs::{OsRng, ReseedingRng};
    use rand_chacha::ChaCha12Core;
    type Inner = Rc<std::cell::UnsafeCell<ReseedingRng<ChaCha12Core, OsRng>>>;
    unsafe {
        let inner: ReseedingRng<ChaCha12Core, OsRng> = std::mem::zeroed();
        let rc: Inner = Rc::new(std::cell::UnsafeCell::new(inner));
        std::mem::transmute::<Inner, rand::rngs::ThreadRng>(rc)
    }
}

/// `<ThreadRng as RngCore>::next_u32` — arbitrary: the accumulator split becomes nondeterministic.
pub fn rng_next_u32(_r: &mut rand::rngs::ThreadRng) -> u32 {
    kani::any()
}
pub fn rng_next_u64(_r: &mut rand::rngs::ThreadRng) -> u64 {
    kani::any()
}

/// `core::arch::x86_64::__cpuid_count` — sha2 cpufeatures inline asm; selects portable path.
pub fn cpuid_count(_leaf: u32, _sub: u32) -> std::arch::x86_64::CpuidResult {
    std::arch::x86_64::CpuidResult {
        eax: 0,
        ebx: 0,
        ecx: 0,
        edx: 0,
    }
}

/// `Vec::extend_from_slice` — the same function written as a push loop. The std version is a memcpy
/// of `other.len()` bytes; with a symbolic length CBMC models that as an unbounded array copy
/// (measured: 4-16 M SAT variables for a 0..=9 byte atom). The loop is bounded by the harness
/// unwind and checked by the unwinding assertion.
pub fn vec_extend_from_slice<T: Clone, A: std::alloc::Allocator>(v: &mut Vec<T, A>, other: &[T]) {
    let mut i = 0;
    while i < other.len() {
        v.push(other[i].clone());
        i += 1;
    }
}
