//! Pipeline self-tests: a harness that must FAIL, and one with an unsatisfiable cover.
use crate::util::*;
use clvmr::allocator::Allocator;

proof! {
    #[kani::unwind(12)]
    fn selftest_must_fail() {
        let mut a = Allocator::new();
        let v: u64 = kani::any();
        let n = a.new_u64(v).unwrap();
        // wrong on purpose: 0x80 needs two bytes
        assert!(a.atom_len(n) <= 1 || v > 0x80, "selftest: deliberate failure");
        std::mem::forget(a);
    }
}

kernel_proof! {
    fn selftest_vacuous_cover() {
        let v: u8 = kani::any();
        kani::assume(v < 10);
        kani::cover!(v > 20, "selftest: unsatisfiable cover");
    }
}

kernel_proof! {
    fn selftest_array_any() {
        let b: [u8; 3] = kani::any();
        let w: [u16; 2] = kani::any();
        let f: bool = kani::any();
        assert!(!(b[0] == 7 && b[2] == 9 && w[1] == 0x1234 && f), "selftest: array failure");
    }
}
