//! Shared harness helpers.

use clvmr::allocator::{Allocator, NodePtr, SExp};

#[cfg(not(kani))]
pub use crate::kani_shim as kani;

/// Declares a proof harness with the full set of environment stubs applied.
/// Usage: `proof! { #[kani::unwind(5)] fn name() { ... } }`
#[cfg(kani)]
#[macro_export]
macro_rules! proof {
    ($(#[$m:meta])* fn $name:ident() $body:block) => {
        #[kani::proof]
        #[kani::stub(std::hash::RandomState::new, $crate::stubs::random_state_new)]
        #[kani::stub(std::vec::Vec::reserve, $crate::stubs::vec_reserve)]
        #[kani::stub(std::vec::Vec::extend_from_slice, $crate::stubs::vec_extend_from_slice)]
        #[kani::stub(alloc::fmt::format, $crate::stubs::fmt_format)]
        #[kani::stub(rand::rngs::thread::rng, $crate::stubs::thread_rng)]
        #[kani::stub(<rand::rngs::ThreadRng as rand::RngCore>::next_u32, $crate::stubs::rng_next_u32)]
        #[kani::stub(<rand::rngs::ThreadRng as rand::RngCore>::next_u64, $crate::stubs::rng_next_u64)]
        #[kani::stub(std::arch::x86_64::__cpuid_count, $crate::stubs::cpuid_count)]
        $(#[$m])*
        pub(crate) fn $name() $body
    };
}

/// A harness that needs no allocator (pure kernels): only the format stub.
#[cfg(kani)]
#[macro_export]
macro_rules! kernel_proof {
    ($(#[$m:meta])* fn $name:ident() $body:block) => {
        #[kani::proof]
        #[kani::stub(alloc::fmt::format, $crate::stubs::fmt_format)]
        $(#[$m])*
        pub(crate) fn $name() $body
    };
}

/// Native replay build: a harness is an ordinary function, no stubs.
#[cfg(not(kani))]
#[macro_export]
macro_rules! proof {
    ($(#[$m:meta])* fn $name:ident() $body:block) => {
        pub(crate) fn $name() $body
    };
}
#[cfg(not(kani))]
#[macro_export]
macro_rules! kernel_proof {
    ($(#[$m:meta])* fn $name:ident() $body:block) => {
        pub(crate) fn $name() $body
    };
}

/// Symbolic atom as a view (substring) of a fixed-size symbolic heap atom.
/// Returns (node, base bytes, start, len). Never copies a symbolic-length slice.
pub fn sym_view<const N: usize>(a: &mut Allocator, max_len: usize) -> (NodePtr, [u8; N], usize, usize) {
    let base: [u8; N] = kani::any();
    // force heap representation: N >= 5 always lands on the heap
    let b = a.new_atom(&base).unwrap();
    let len: usize = kani::any();
    kani::assume(len <= max_len && len <= N);
    let n = a.new_substr(b, 0, len as u32).unwrap();
    (n, base, 0, len)
}

/// minimal two's complement big-endian encoding length of a signed 128-bit value
pub fn min_len_i128(v: i128) -> usize {
    if v == 0 {
        return 0;
    }
    let mut n = 1usize;
    while n < 16 {
        let bits = (n * 8) as u32;
        let lo = -(1i128 << (bits - 1));
        let hi = (1i128 << (bits - 1)) - 1;
        if v >= lo && v <= hi {
            return n;
        }
        n += 1;
    }
    16
}

/// Fixed-size pool of nodes from which symbolic trees / DAGs are built through the public API.
pub struct Pool<const CAP: usize> {
    pub nodes: [NodePtr; CAP],
    pub n: usize,
}

impl<const CAP: usize> Pool<CAP> {
    pub fn new() -> Self {
        Pool { nodes: [NodePtr::NIL; CAP], n: 0 }
    }
    pub fn push(&mut self, p: NodePtr) {
        self.nodes[self.n] = p;
        self.n += 1;
    }
    /// any earlier node, chosen by the solver
    pub fn pick(&self) -> NodePtr {
        let i: usize = kani::any();
        kani::assume(i < self.n);
        self.nodes[i]
    }
    /// add `k` pairs whose children are arbitrary earlier nodes: every tree and DAG with k pairs
    pub fn grow(&mut self, a: &mut Allocator, k: usize) -> NodePtr {
        let mut last = self.nodes[self.n - 1];
        let mut i = 0;
        while i < k {
            let l = self.pick();
            let r = self.pick();
            last = a.new_pair(l, r).unwrap();
            self.push(last);
            i += 1;
        }
        last
    }
}

/// the three atom representations of DESIGN 2.4
#[derive(Clone, Copy, PartialEq, Eq)]
pub enum Repr {
    /// whatever `new_atom` chooses (inline when canonical small, heap otherwise)
    Native,
    /// substring view into a larger heap atom
    View,
    /// heap copy produced by new_concat of two halves (always lands on the heap)
    Concat,
}

/// Build an atom with the given concrete length `len` (<= 4) and symbolic content in a
/// chosen representation; returns the node and its bytes (first `len` entries valid).
pub fn atom_in_repr(a: &mut Allocator, bytes: [u8; 4], len: usize, r: Repr) -> NodePtr {
    match r {
        Repr::Native => a.new_atom(&bytes[..len]).unwrap(),
        Repr::View => {
            let mut base = [0u8; 6];
            let mut i = 0;
            while i < 4 {
                base[i + 1] = bytes[i];
                i += 1;
            }
            base[0] = 0xa5;
            base[5] = 0x5a;
            let b = a.new_atom(&base).unwrap();
            a.new_substr(b, 1, 1 + len as u32).unwrap()
        }
        Repr::Concat => {
            if len < 2 {
                // concat of fewer than 2 non-empty parts: use nil + part (two nodes => copies)
                let p = a.new_atom(&bytes[..len]).unwrap();
                let nil = a.nil();
                a.new_concat(len, &[nil, p]).unwrap()
            } else {
                let p = a.new_atom(&bytes[..1]).unwrap();
                let q = a.new_atom(&bytes[1..len]).unwrap();
                a.new_concat(len, &[p, q]).unwrap()
            }
        }
    }
}

/// `new_atom` of the first `len` bytes with every memcpy of concrete size (case split on len).
pub fn new_atom_len(a: &mut Allocator, b: &[u8; 4], len: usize) -> NodePtr {
    match len {
        0 => a.new_atom(&[]).unwrap(),
        1 => a.new_atom(&b[..1]).unwrap(),
        2 => a.new_atom(&b[..2]).unwrap(),
        3 => a.new_atom(&b[..3]).unwrap(),
        _ => a.new_atom(&b[..4]).unwrap(),
    }
}

/// Fixed-capacity writer (no heap growth): the sink for serializer harnesses.
pub struct FixedBuf<const N: usize> {
    pub buf: [u8; N],
    pub len: usize,
}
impl<const N: usize> FixedBuf<N> {
    pub fn new() -> Self {
        FixedBuf { buf: [0u8; N], len: 0 }
    }
}
impl<const N: usize> std::io::Write for FixedBuf<N> {
    fn write(&mut self, b: &[u8]) -> std::io::Result<usize> {
        let mut i = 0;
        while i < b.len() {
            self.buf[self.len] = b[i];
            self.len += 1;
            i += 1;
        }
        Ok(b.len())
    }
    fn flush(&mut self) -> std::io::Result<()> {
        Ok(())
    }
}
