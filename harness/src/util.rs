//! Shared harness helpers.

use clvmr::allocator::{Allocator, NodePtr, SExp};

#[cfg(not(kani))]
pub use crate::kani_shim as kani;

/// Declares a proof harness with the full set of environment stubs applied.
/// Usage: `proof! { #[kani::unwind(5)] fn name() { ... } }`
#[cfg(kani)]
#[macro_export]
macro_rules! proof {
    ($(#[$m:meta])* fn $name:ident() $body:block) => {
        #[kani::proof]
        #[kani::stub(std::hash::RandomState::new, $crate::stubs::random_state_new)]
        #[kani::stub(std::vec::Vec::reserve, $crate::stubs::vec_reserve)]
        #[kani::stub(alloc::fmt::format, $crate::stubs::fmt_format)]
        #[kani::stub(rand::rngs::thread::rng, $crate::stubs::thread_rng)]
        #[kani::stub(<rand::rngs::ThreadRng as rand::RngCore>::next_u32, $crate::stubs::rng_next_u32)]
        #[kani::stub(<rand::rngs::ThreadRng as rand::RngCore>::next_u64, $crate::stubs::rng_next_u64)]
        #[kani::stub(std::arch::x86_64::__cpuid_count, $crate::stubs::cpuid_count)]
        $(#[$m])*
        pub(crate) fn $name() $body
    };
}

/// A harness that needs no allocator (pure kernels): only the format stub.
#[cfg(kani)]
#[macro_export]
macro_rules! kernel_proof {
    ($(#[$m:meta])* fn $name:ident() $body:block) => {
        #[kani::proof]
        #[kani::stub(alloc::fmt::format, $crate::stubs::fmt_format)]
        $(#[$m])*
        pub(crate) fn $name() $body
    };
}

/// Native replay build: a harness is an ordinary function, no stubs.
#[cfg(not(kani))]
#[macro_export]
macro_rules! proof {
    ($(#[$m:meta])* fn $name:ident() $body:block) => {
        pub(crate) fn $name() $body
    };
}
#[cfg(not(kani))]
#[macro_export]
macro_rules! kernel_proof {
    ($(#[$m:meta])* fn $name:ident() $body:block) => {
        pub(crate) fn $name() $body
    };
}

/// Symbolic atom as a view (substring) of a fixed-size symbolic heap atom.
/// Returns (node, base bytes, start, len). Never copies a symbolic-length slice.
pub fn sym_view<const N: usize>(a: &mut Allocator, max_len: usize) -> (NodePtr, [u8; N], usize, usize) {
    let base: [u8; N] = kani::any();
    // force heap representation: N >= 5 always lands on the heap
    let b = a.new_atom(&base).unwrap();
    let len: usize = kani::any();
    kani::assume(len <= max_len && len <= N);
    let n = a.new_substr(b, 0, len as u32).unwrap();
    (n, base, 0, len)
}

/// minimal two's complement big-endian encoding length of a signed 128-bit value
pub fn min_len_i128(v: i128) -> usize {
    if v == 0 {
        return 0;
    }
    let mut n = 1usize;
    while n < 16 {
        let bits = (n * 8) as u32;
        let lo = -(1i128 << (bits - 1));
        let hi = (1i128 << (bits - 1)) - 1;
        if v >= lo && v <= hi {
            return n;
        }
        n += 1;
    }
    16
}
