//! C12 — allocator accounting is representation independent; C13 — limits enforced exactly.
//! One allocator operation from a symbolic pre-state, compared with the reference model
//! "every atom is a separately stored byte string" (three counters) and with the caps.
//! Assertion labels are namespaced: `C12/...` accounting, `C13/...` limits.
use crate::util::*;
use clvmr::allocator::{Allocator, MaybeRestore, NodePtr};
use clvmr::error::EvalErr;

const MAXA: usize = 62_500_000;
const MAXP: usize = 62_500_000;

/// Symbolic pre-state reachable through the public API only:
/// any heap limit, any distance to the atom and pair caps, nodes of every representation.
pub(crate) struct Pre {
    pub a: Allocator,
    limit: usize,
    heap: NodePtr,    // 6 symbolic bytes on the heap
    hb: [u8; 6],
    view: NodePtr,    // view into `heap` with symbolic bounds
    vs: u32,
    ve: u32,
    small: NodePtr,   // inline small integer, symbolic value
    sv: u32,
    pair: NodePtr,
}

pub(crate) fn pre() -> Pre {
    let limit: usize = kani::any();
    kani::assume(limit <= u32::MAX as usize && limit >= 7);
    let mut a = Allocator::new_limited(limit);
    let hb: [u8; 6] = kani::any();
    let heap = a.new_atom(&hb).unwrap();
    let vs: u32 = kani::any();
    let ve: u32 = kani::any();
    kani::assume(vs <= ve && ve <= 6);
    let view = a.new_substr(heap, vs, ve).unwrap();
    let sv: u32 = kani::any();
    kani::assume(sv < (1 << 26));
    let small = a.new_small_number(sv);
    kani::assume(small.is_ok());
    let small = small.unwrap();
    let pair = a.new_pair(heap, small).unwrap();
    // any distance from the atom / pair caps
    let ga: usize = kani::any();
    let gp: usize = kani::any();
    kani::assume(ga <= MAXA && gp <= MAXP);
    kani::assume(a.add_ghost_atom(ga).is_ok());
    kani::assume(a.add_ghost_pair(gp).is_ok());
    Pre { a, limit, heap, hb, view, vs, ve, small, sv, pair }
}

#[derive(Clone, Copy)]
struct Counts {
    atoms: usize,
    pairs: usize,
    heap: usize,
}
fn counts(a: &Allocator) -> Counts {
    Counts { atoms: a.atom_count(), pairs: a.pair_count(), heap: a.heap_size() }
}

pub(crate) fn inv(p: &Pre) {
    let c = counts(&p.a);
    assert!(c.atoms <= MAXA, "C13/atom-count-within-cap");
    assert!(c.pairs <= MAXP, "C13/pair-count-within-cap");
    assert!(c.heap <= p.limit, "C13/heap-size-within-limit");
}

/// pre-existing nodes are unchanged (immutability; also part of "failed allocation leaves contents unchanged")
pub(crate) fn contents_unchanged(p: &Pre) {
    let a = &p.a;
    let h = a.atom(p.heap);
    let hs = h.as_ref();
    assert!(hs.len() == 6, "C14/heap-atom-length-stable");
    let mut i = 0;
    while i < 6 {
        assert!(hs[i] == p.hb[i], "C14/heap-atom-bytes-stable");
        i += 1;
    }
    let v = a.atom(p.view);
    let vsl = v.as_ref();
    assert!(vsl.len() == (p.ve - p.vs) as usize, "C14/view-length-stable");
    let mut i = 0;
    while i < vsl.len() {
        assert!(vsl[i] == p.hb[p.vs as usize + i], "C14/view-bytes-stable");
        i += 1;
    }
    assert!(a.small_number(p.small) == Some(p.sv), "C14/small-atom-stable");
    match a.sexp(p.pair) {
        clvmr::allocator::SExp::Pair(l, r) => assert!(l == p.heap && r == p.small, "C14/pair-children-stable"),
        _ => assert!(false, "C14/pair-children-stable"),
    }
}

fn expect_atom_result(
    p: &Pre,
    before: Counts,
    r: &Result<NodePtr, EvalErr>,
    new_bytes: usize,
    heap_label_ok: bool,
) {
    let after = counts(&p.a);
    let would_atoms = before.atoms + 1 > MAXA;
    let would_heap = before.heap + new_bytes > p.limit;
    match r {
        Ok(_) => {
            assert!(!would_atoms, "C13/atom-cap-must-fail-when-exceeded");
            assert!(!would_heap, "C13/heap-cap-must-fail-when-exceeded");
            assert!(after.atoms == before.atoms + 1, "C12/new-atom-counts-once");
            assert!(after.pairs == before.pairs, "C12/pairs-unchanged-by-atom-op");
            if heap_label_ok {
                assert!(after.heap == before.heap + new_bytes, "C12/heap-grows-by-new-bytes");
            }
        }
        Err(e) => {
            match e {
                EvalErr::TooManyAtoms => assert!(would_atoms, "C13/too-many-atoms-only-when-cap-exceeded"),
                EvalErr::OutOfMemory => assert!(would_heap, "C13/out-of-memory-only-when-limit-exceeded"),
                _ => assert!(false, "C13/unexpected-error-kind"),
            }
            assert!(after.atoms == before.atoms && after.pairs == before.pairs && after.heap == before.heap,
                "C13/failed-op-leaves-counts-unchanged");
        }
    }
}

// ---- new_atom: any content of length 0..=5 (inline and heap outcomes)
proof! {
    #[kani::unwind(8)]
    fn c12_step_new_atom() {
        let mut p = pre();
        let before = counts(&p.a);
        let b: [u8; 5] = kani::any();
        let len: usize = kani::any();
        kani::assume(len <= 5);
        let r = match len {
            0 => p.a.new_atom(&[]),
            1 => p.a.new_atom(&b[..1]),
            2 => p.a.new_atom(&b[..2]),
            3 => p.a.new_atom(&b[..3]),
            4 => p.a.new_atom(&b[..4]),
            _ => p.a.new_atom(&b[..5]),
        };
        expect_atom_result(&p, before, &r, len, true);
        if let Ok(n) = r {
            let at = p.a.atom(n);
            let s = at.as_ref();
            assert!(s.len() == len, "C14/new-atom-length");
            let mut i = 0;
            while i < len {
                assert!(s[i] == b[i], "C14/new-atom-bytes");
                i += 1;
            }
            kani::cover!(n.is_atom() && p.a.small_number(n).is_some(), "inline result");
            kani::cover!(p.a.small_number(n).is_none(), "heap result");
        }
        kani::cover!(matches!(r, Err(EvalErr::TooManyAtoms)), "atom cap hit");
        kani::cover!(matches!(r, Err(EvalErr::OutOfMemory)), "heap limit hit");
        inv(&p);
        contents_unchanged(&p);
        std::mem::forget(p);
    }
}

// ---- new_small_number
proof! {
    #[kani::unwind(8)]
    fn c12_step_new_small_number() {
        let mut p = pre();
        let before = counts(&p.a);
        let v: u32 = kani::any();
        kani::assume(v < (1 << 26));
        let r = p.a.new_small_number(v);
        let len = min_len_u32(v);
        expect_atom_result(&p, before, &r, len, true);
        if let Ok(n) = r {
            assert!(p.a.small_number(n) == Some(v), "C14/small-number-reads-back");
            assert!(p.a.atom_len(n) == len, "C14/small-number-length-minimal");
        }
        kani::cover!(matches!(r, Err(EvalErr::TooManyAtoms)), "atom cap hit");
        kani::cover!(matches!(r, Err(EvalErr::OutOfMemory)), "heap limit hit");
        kani::cover!(r.is_ok() && len == 4, "4-byte small number");
        inv(&p);
        contents_unchanged(&p);
        std::mem::forget(p);
    }
}

fn min_len_u32(v: u32) -> usize {
    if v == 0 { 0 } else if v < 0x80 { 1 } else if v < 0x8000 { 2 } else if v < 0x80_0000 { 3 } else if v < 0x8000_0000 { 4 } else { 5 }
}

// ---- new_pair
proof! {
    #[kani::unwind(8)]
    fn c12_step_new_pair() {
        let mut p = pre();
        let before = counts(&p.a);
        let which: u8 = kani::any();
        let l = match which & 3 { 0 => p.heap, 1 => p.view, 2 => p.small, _ => p.pair };
        let r_ = match (which >> 2) & 3 { 0 => p.heap, 1 => p.view, 2 => p.small, _ => p.pair };
        let r = p.a.new_pair(l, r_);
        let after = counts(&p.a);
        match r {
            Ok(n) => {
                assert!(before.pairs + 1 <= MAXP, "C13/pair-cap-must-fail-when-exceeded");
                assert!(after.pairs == before.pairs + 1, "C12/new-pair-counts-once");
                assert!(after.atoms == before.atoms && after.heap == before.heap, "C12/pair-op-leaves-atoms-and-heap");
                match p.a.sexp(n) {
                    clvmr::allocator::SExp::Pair(x, y) => assert!(x == l && y == r_, "C14/pair-children"),
                    _ => assert!(false, "C14/pair-children"),
                }
            }
            Err(ref e) => {
                assert!(matches!(e, EvalErr::TooManyPairs), "C13/unexpected-error-kind");
                assert!(before.pairs + 1 > MAXP, "C13/too-many-pairs-only-when-cap-exceeded");
                assert!(after.atoms == before.atoms && after.pairs == before.pairs && after.heap == before.heap,
                    "C13/failed-op-leaves-counts-unchanged");
            }
        }
        kani::cover!(r.is_err(), "pair cap hit");
        kani::cover!(r.is_ok(), "pair created");
        inv(&p);
        contents_unchanged(&p);
        std::mem::forget(p);
    }
}

// ---- add_ghost_atom / add_ghost_pair (used by run_program entry and by the back-reference decoder)
proof! {
    #[kani::unwind(8)]
    fn c12_step_add_ghost() {
        let mut p = pre();
        let before = counts(&p.a);
        let n: usize = kani::any();
        kani::assume(n <= 2 * MAXA);
        let atoms: bool = kani::any();
        let r = if atoms { p.a.add_ghost_atom(n) } else { p.a.add_ghost_pair(n) };
        let after = counts(&p.a);
        let cur = if atoms { before.atoms } else { before.pairs };
        match r {
            Ok(()) => {
                assert!(cur + n <= MAXA, "C13/ghost-cap-must-fail-when-exceeded");
                if atoms {
                    assert!(after.atoms == before.atoms + n && after.pairs == before.pairs, "C12/ghost-atoms-count");
                } else {
                    assert!(after.pairs == before.pairs + n && after.atoms == before.atoms, "C12/ghost-pairs-count");
                }
                assert!(after.heap == before.heap, "C12/ghost-leaves-heap");
            }
            Err(ref e) => {
                assert!(cur + n > MAXA, "C13/ghost-fails-only-when-cap-exceeded");
                if atoms {
                    assert!(matches!(e, EvalErr::TooManyAtoms), "C13/unexpected-error-kind");
                } else {
                    assert!(matches!(e, EvalErr::TooManyPairs), "C13/unexpected-error-kind");
                }
                assert!(after.atoms == before.atoms && after.pairs == before.pairs && after.heap == before.heap,
                    "C13/failed-op-leaves-counts-unchanged");
            }
        }
        kani::cover!(r.is_err() && atoms, "ghost atom cap hit");
        kani::cover!(r.is_err() && !atoms, "ghost pair cap hit");
        kani::cover!(r.is_ok() && n > 0, "ghost added");
        inv(&p);
        std::mem::forget(p);
    }
}

// ---- new_substr of every representation, symbolic bounds
proof! {
    #[kani::unwind(8)]
    fn c12_step_new_substr() {
        let mut p = pre();
        let before = counts(&p.a);
        let which: u8 = kani::any();
        kani::assume(which < 3);
        let (node, plen) = match which {
            0 => (p.heap, 6usize),
            1 => (p.view, (p.ve - p.vs) as usize),
            _ => (p.small, min_len_u32(p.sv)),
        };
        let s: u32 = kani::any();
        let e: u32 = kani::any();
        let r = p.a.new_substr(node, s, e);
        let after = counts(&p.a);
        let in_bounds = s <= e && (e as usize) <= plen;
        match &r {
            Ok(n) => {
                assert!(in_bounds, "C12/substr-out-of-bounds-must-fail");
                assert!(before.atoms + 1 <= MAXA, "C13/atom-cap-must-fail-when-exceeded");
                assert!(after.atoms == before.atoms + 1, "C12/new-atom-counts-once");
                assert!(after.pairs == before.pairs, "C12/pairs-unchanged-by-atom-op");
                if which == 2 && p.a.small_number(*n).is_none() {
                    // substring of an inline atom whose slice is not a canonical small integer
                    assert!(after.heap == before.heap, "C12/new_substr/inline-parent-noncanonical-slice");
                    assert!(after.heap <= p.limit, "C13/new_substr/inline-parent-noncanonical-slice-heap-limit");
                    kani::cover!(true, "inline parent, non-canonical slice");
                } else {
                    assert!(after.heap == before.heap, "C12/substr-shares-parent-bytes");
                }
                assert!(p.a.atom_len(*n) == (e - s) as usize, "C14/substr-length");
                kani::cover!(which == 0, "substr of heap atom");
                kani::cover!(which == 1, "substr of view");
                kani::cover!(which == 2 && p.a.small_number(*n).is_some(), "substr of inline atom, canonical slice");
            }
            Err(err) => {
                match err {
                    EvalErr::TooManyAtoms => assert!(before.atoms + 1 > MAXA, "C13/too-many-atoms-only-when-cap-exceeded"),
                    EvalErr::InvalidAllocArg(_, _) => assert!(!in_bounds, "C12/substr-in-bounds-must-succeed"),
                    _ => assert!(false, "C13/unexpected-error-kind"),
                }
                assert!(after.atoms == before.atoms && after.pairs == before.pairs && after.heap == before.heap,
                    "C13/failed-op-leaves-counts-unchanged");
            }
        }
        kani::cover!(matches!(r, Err(EvalErr::TooManyAtoms)), "atom cap hit");
        kani::cover!(matches!(r, Err(EvalErr::InvalidAllocArg(_, _))), "bounds error");
        assert!(after.atoms <= MAXA, "C13/atom-count-within-cap");
        contents_unchanged(&p);
        std::mem::forget(p);
    }
}

// ---- new_concat with 0..=3 terms of every representation, matching and non-matching size
proof! {
    #[kani::unwind(8)]
    fn c12_step_new_concat() {
        let mut p = pre();
        let before = counts(&p.a);
        let k: usize = kani::any();
        kani::assume(k <= 3);
        let mut terms = [NodePtr::NIL; 3];
        let mut total = 0usize;
        let mut i = 0;
        while i < 3 {
            let w: u8 = kani::any();
            kani::assume(w < 3);
            let (n, l) = match w {
                0 => (p.heap, 6usize),
                1 => (p.view, (p.ve - p.vs) as usize),
                _ => (p.small, min_len_u32(p.sv)),
            };
            terms[i] = n;
            if i < k {
                total += l;
            }
            i += 1;
        }
        let size: usize = kani::any();
        kani::assume(size <= 32);
        let r = match k {
            0 => p.a.new_concat(size, &[]),
            1 => p.a.new_concat(size, &terms[..1]),
            2 => p.a.new_concat(size, &terms[..2]),
            _ => p.a.new_concat(size, &terms[..3]),
        };
        let after = counts(&p.a);
        match &r {
            Ok(n) => {
                assert!(size == total, "C12/concat-wrong-size-must-fail");
                assert!(before.atoms + 1 <= MAXA, "C13/atom-cap-must-fail-when-exceeded");
                assert!(before.heap + size <= p.limit, "C13/heap-cap-must-fail-when-exceeded");
                assert!(after.atoms == before.atoms + 1, "C12/new-atom-counts-once");
                assert!(after.pairs == before.pairs, "C12/pairs-unchanged-by-atom-op");
                assert!(after.heap == before.heap + size, "C12/heap-grows-by-new-bytes");
                assert!(p.a.atom_len(*n) == size, "C14/concat-length");
                kani::cover!(k == 0, "concat of nothing");
                kani::cover!(k == 1, "concat of one (aliases the operand)");
                kani::cover!(k == 3, "concat of three");
            }
            Err(err) => {
                match err {
                    EvalErr::TooManyAtoms => assert!(before.atoms + 1 > MAXA, "C13/too-many-atoms-only-when-cap-exceeded"),
                    EvalErr::OutOfMemory => assert!(before.heap + size > p.limit, "C13/out-of-memory-only-when-limit-exceeded"),
                    EvalErr::InternalError(_, _) => assert!(size != total, "C12/concat-right-size-must-succeed"),
                    _ => assert!(false, "C13/unexpected-error-kind"),
                }
                assert!(after.atoms == before.atoms && after.pairs == before.pairs && after.heap == before.heap,
                    "C13/failed-op-leaves-counts-unchanged");
            }
        }
        kani::cover!(matches!(r, Err(EvalErr::OutOfMemory)), "heap limit hit");
        kani::cover!(matches!(r, Err(EvalErr::InternalError(_, _))), "size mismatch");
        inv(&p);
        contents_unchanged(&p);
        std::mem::forget(p);
    }
}

// ---- checkpoint / restore (full and transparent) around a symbolic batch of allocations
proof! {
    #[kani::unwind(8)]
    fn c12_step_checkpoints() {
        let mut p = pre();
        let c0 = counts(&p.a);
        let transparent: bool = kani::any();
        let cp = p.a.checkpoint();
        let tcp = p.a.transparent_checkpoint();
        // a batch of later allocations of every kind (each may fail near a cap: then it is skipped)
        let b: [u8; 5] = kani::any();
        let _ = p.a.new_atom(&b);
        let sv: u32 = kani::any();
        kani::assume(sv < (1 << 26));
        let _ = p.a.new_small_number(sv);
        let _ = p.a.new_pair(p.heap, p.pair);
        let s: u32 = kani::any();
        let e: u32 = kani::any();
        let _ = p.a.new_substr(p.heap, s, e);
        let _ = p.a.new_concat(12, &[p.heap, p.heap]);
        let c1 = counts(&p.a);
        kani::cover!(c1.atoms == c0.atoms + 4 && c1.pairs == c0.pairs + 1, "whole batch allocated");
        if transparent {
            p.a.restore_transparent_checkpoint(&tcp);
            let c2 = counts(&p.a);
            assert!(c2.atoms == c1.atoms && c2.pairs == c1.pairs && c2.heap == c1.heap,
                "C12/transparent-restore-leaves-counts");
        } else {
            p.a.restore_checkpoint(&cp);
            let c2 = counts(&p.a);
            assert!(c2.atoms == c0.atoms && c2.pairs == c0.pairs && c2.heap == c0.heap,
                "C12/full-restore-resets-counts");
        }
        inv(&p);
        contents_unchanged(&p);
        // the allocator keeps working after the restore: one more atom counts once
        let c3 = counts(&p.a);
        let r = p.a.new_atom(&b);
        expect_atom_result(&p, c3, &r, 5, true);
        std::mem::forget(p);
    }
}
