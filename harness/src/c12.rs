//! C12 — allocator accounting is representation independent; C13 — limits enforced exactly.
//! One allocator operation from a symbolic pre-state, compared with the reference model
//! "every atom is a separately stored byte string" (three counters) and with the caps.
//! Assertion labels are namespaced: `C12/...` accounting, `C13/...` limits.
use crate::util::*;
use clvmr::allocator::{Allocator, MaybeRestore, NodePtr};
use clvmr::error::EvalErr;

const MAXA: usize = 62_500_000;
const MAXP: usize = 62_500_000;
/// concrete heap limit of the `_contents` variants: small enough that out-of-memory is reachable
const CONCRETE_LIMIT: usize = 11;

/// `_contents` variants: concrete heap limit `lim`, contents of all pre-existing nodes re-read afterwards.
/// `_limits` variants: concrete heap limit 47 and a symbolic number (0..=6) of single-term concats of the
/// 6-byte atom (each adds 6 bytes and one atom to the counts without touching the vectors), so that the heap
/// size is anywhere between 7 and 47 of 47 - any small distance from the cap. (A symbolic `heap_limit`
/// makes the success of the very first allocation symbolic, which makes every vector length symbolic
/// in CBMC and the formula 5-10x larger - measured - so the distance is made symbolic instead.)
fn mk_pre(contents: bool, lim: usize) -> Pre {
    if contents {
        pre_with(Some((1, 4)), Some(lim), true)
    } else {
        let mut p = pre_with(None, Some(47), true);
        let f: usize = kani::any();
        kani::assume(f <= 6);
        let mut i = 0;
        while i < 6 {
            if i < f {
                let r = p.a.new_concat(6, &[p.heap]);
                kani::assume(r.is_ok());
            }
            i += 1;
        }
        p
    }
}

/// Symbolic pre-state reachable through the public API only:
/// any heap limit, any distance to the atom and pair caps, nodes of every representation.
pub(crate) struct Pre {
    pub a: Allocator,
    pub limit: usize,
    pub heap: NodePtr,    // 6 symbolic bytes on the heap
    pub hb: [u8; 6],
    pub view: NodePtr,    // view into `heap` with symbolic bounds
    pub vs: u32,
    pub ve: u32,
    pub small: NodePtr,   // inline small integer, symbolic value
    pub sv: u32,
    pub pair: NodePtr,
}

pub(crate) fn pre() -> Pre {
    pre_with(None, None, true)
}

pub(crate) fn pre_with(view: Option<(u32, u32)>, lim: Option<usize>, ghosts: bool) -> Pre {
    let limit: usize = match lim { Some(l) => l, None => kani::any() };
    kani::assume(limit <= u32::MAX as usize && limit >= 7);
    let mut a = Allocator::new_limited(limit);
    let hb: [u8; 6] = kani::any();
    let heap = a.new_atom(&hb).unwrap();
    let (vs, ve): (u32, u32) = match view { Some(v) => v, None => (kani::any(), kani::any()) };
    kani::assume(vs <= ve && ve <= 6);
    let view = a.new_substr(heap, vs, ve).unwrap();
    let sv: u32 = kani::any();
    kani::assume(sv < (1 << 26));
    let small = a.new_small_number(sv);
    kani::assume(small.is_ok());
    let small = small.unwrap();
    let pair = a.new_pair(heap, small).unwrap();
    // any distance from the atom / pair caps
    if ghosts {
        let ga: usize = kani::any();
        let gp: usize = kani::any();
        kani::assume(ga <= MAXA && gp <= MAXP);
        kani::assume(a.add_ghost_atom(ga).is_ok());
        kani::assume(a.add_ghost_pair(gp).is_ok());
    }
    Pre { a, limit, heap, hb, view, vs, ve, small, sv, pair }
}

#[derive(Clone, Copy)]
struct Counts {
    atoms: usize,
    pairs: usize,
    heap: usize,
}
fn counts(a: &Allocator) -> Counts {
    Counts { atoms: a.atom_count(), pairs: a.pair_count(), heap: a.heap_size() }
}

pub(crate) fn inv(p: &Pre) {
    let c = counts(&p.a);
    assert!(c.atoms <= MAXA, "C13/atom-count-within-cap");
    assert!(c.pairs <= MAXP, "C13/pair-count-within-cap");
    assert!(c.heap <= p.limit, "C13/heap-size-within-limit");
}

/// pre-existing nodes are unchanged (immutability; also part of "failed allocation leaves contents unchanged")
pub(crate) fn contents_unchanged(p: &Pre) {
    let a = &p.a;
    let h = a.atom(p.heap);
    let hs = h.as_ref();
    assert!(hs.len() == 6, "C14/heap-atom-length-stable");
    let mut i = 0;
    while i < 6 {
        assert!(hs[i] == p.hb[i], "C14/heap-atom-bytes-stable");
        i += 1;
    }
    let v = a.atom(p.view);
    let vsl = v.as_ref();
    assert!(vsl.len() == (p.ve - p.vs) as usize, "C14/view-length-stable");
    let mut i = 0;
    while i < vsl.len() {
        assert!(vsl[i] == p.hb[p.vs as usize + i], "C14/view-bytes-stable");
        i += 1;
    }
    assert!(a.small_number(p.small) == Some(p.sv), "C14/small-atom-stable");
    match a.sexp(p.pair) {
        clvmr::allocator::SExp::Pair(l, r) => assert!(l == p.heap && r == p.small, "C14/pair-children-stable"),
        _ => assert!(false, "C14/pair-children-stable"),
    }
}

fn expect_atom_result(
    p: &Pre,
    before: Counts,
    r: &Result<NodePtr, EvalErr>,
    new_bytes: usize,
    heap_label_ok: bool,
) {
    let after = counts(&p.a);
    let would_atoms = before.atoms + 1 > MAXA;
    let would_heap = before.heap + new_bytes > p.limit;
    match r {
        Ok(_) => {
            assert!(!would_atoms, "C13/atom-cap-must-fail-when-exceeded");
            assert!(!would_heap, "C13/heap-cap-must-fail-when-exceeded");
            assert!(after.atoms == before.atoms + 1, "C12/new-atom-counts-once");
            assert!(after.pairs == before.pairs, "C12/pairs-unchanged-by-atom-op");
            if heap_label_ok {
                assert!(after.heap == before.heap + new_bytes, "C12/heap-grows-by-new-bytes");
            }
        }
        Err(e) => {
            match e {
                EvalErr::TooManyAtoms => assert!(would_atoms, "C13/too-many-atoms-only-when-cap-exceeded"),
                EvalErr::OutOfMemory => assert!(would_heap, "C13/out-of-memory-only-when-limit-exceeded"),
                _ => assert!(false, "C13/unexpected-error-kind"),
            }
            assert!(after.atoms == before.atoms && after.pairs == before.pairs && after.heap == before.heap,
                "C13/failed-op-leaves-counts-unchanged");
        }
    }
}

// ---- new_atom: any content of length 0..=5 (inline and heap outcomes)

// ---- new_atom: any content of concrete length L (inline and heap outcomes); one harness per length
fn step_new_atom<const L: usize>(contents: bool) {
    let mut p = mk_pre(contents, if L == 5 { 15 } else { CONCRETE_LIMIT });
    let before = counts(&p.a);
    let b: [u8; L] = kani::any();
    let r = p.a.new_atom(&b);
    expect_atom_result(&p, before, &r, L, true);
    if let Ok(n) = r {
        let at = p.a.atom(n);
        let s = at.as_ref();
        assert!(s.len() == L, "C14/new-atom-length");
        let mut i = 0;
        while i < L {
            assert!(s[i] == b[i], "C14/new-atom-bytes");
            i += 1;
        }
        let on_heap = matches!(p.a.node(n), clvmr::allocator::NodeVisitor::Buffer(_));
        kani::cover!(L >= 5 || !on_heap, "inline result (or length 5)");
        kani::cover!(L == 0 || on_heap, "heap result (or length 0)");
    }
    kani::cover!(matches!(r, Err(EvalErr::TooManyAtoms)), "atom cap hit");
    kani::cover!(L == 0 || matches!(r, Err(EvalErr::OutOfMemory)), "heap limit hit (or length 0)");
    inv(&p);
    if contents { contents_unchanged(&p); }
    std::mem::forget(p);
}
proof! { #[kani::unwind(8)] fn c12_step_new_atom0_limits() { step_new_atom::<0>(false); } }
proof! { #[kani::unwind(8)] fn c12_step_new_atom0_contents() { step_new_atom::<0>(true); } }
proof! { #[kani::unwind(8)] fn c12_step_new_atom1_limits() { step_new_atom::<1>(false); } }
proof! { #[kani::unwind(8)] fn c12_step_new_atom1_contents() { step_new_atom::<1>(true); } }
proof! { #[kani::unwind(8)] fn c12_step_new_atom2_limits() { step_new_atom::<2>(false); } }
proof! { #[kani::unwind(8)] fn c12_step_new_atom2_contents() { step_new_atom::<2>(true); } }
proof! { #[kani::unwind(8)] fn c12_step_new_atom3_limits() { step_new_atom::<3>(false); } }
proof! { #[kani::unwind(8)] fn c12_step_new_atom3_contents() { step_new_atom::<3>(true); } }
proof! { #[kani::unwind(8)] fn c12_step_new_atom4_limits() { step_new_atom::<4>(false); } }
proof! { #[kani::unwind(8)] fn c12_step_new_atom4_contents() { step_new_atom::<4>(true); } }
proof! { #[kani::unwind(8)] fn c12_step_new_atom5_limits() { step_new_atom::<5>(false); } }
proof! { #[kani::unwind(8)] fn c12_step_new_atom5_contents() { step_new_atom::<5>(true); } }

// ---- new_small_number
fn step_new_small_number(contents: bool) {
    let mut p = mk_pre(contents, CONCRETE_LIMIT);
    let before = counts(&p.a);
    let v: u32 = kani::any();
    kani::assume(v < (1 << 26));
    let r = p.a.new_small_number(v);
    let len = min_len_u32(v);
    expect_atom_result(&p, before, &r, len, true);
    if let Ok(n) = r {
        assert!(p.a.small_number(n) == Some(v), "C14/small-number-reads-back");
        assert!(p.a.atom_len(n) == len, "C14/small-number-length-minimal");
    }
    kani::cover!(matches!(r, Err(EvalErr::TooManyAtoms)), "atom cap hit");
    kani::cover!(matches!(r, Err(EvalErr::OutOfMemory)), "heap limit hit");
    kani::cover!(r.is_ok() && len == 4, "4-byte small number");
    inv(&p);
    if contents { contents_unchanged(&p); }
    std::mem::forget(p);
}
proof! { #[kani::unwind(8)] fn c12_step_new_small_number_limits() { step_new_small_number(false); } }
proof! { #[kani::unwind(8)] fn c12_step_new_small_number_contents() { step_new_small_number(true); } }

#[inline(never)]
fn is_inline_parent(w: u8) -> bool { w == 2 }

fn min_len_u32(v: u32) -> usize {
    if v == 0 { 0 } else if v < 0x80 { 1 } else if v < 0x8000 { 2 } else if v < 0x80_0000 { 3 } else if v < 0x8000_0000 { 4 } else { 5 }
}

// ---- new_pair
fn step_new_pair(contents: bool) {
    let mut p = mk_pre(contents, CONCRETE_LIMIT);
    let before = counts(&p.a);
    let which: u8 = kani::any();
    let l = match which & 3 { 0 => p.heap, 1 => p.view, 2 => p.small, _ => p.pair };
    let r_ = match (which >> 2) & 3 { 0 => p.heap, 1 => p.view, 2 => p.small, _ => p.pair };
    let r = p.a.new_pair(l, r_);
    let after = counts(&p.a);
    match r {
        Ok(n) => {
            assert!(before.pairs + 1 <= MAXP, "C13/pair-cap-must-fail-when-exceeded");
            assert!(after.pairs == before.pairs + 1, "C12/new-pair-counts-once");
            assert!(after.atoms == before.atoms && after.heap == before.heap, "C12/pair-op-leaves-atoms-and-heap");
            match p.a.sexp(n) {
                clvmr::allocator::SExp::Pair(x, y) => assert!(x == l && y == r_, "C14/pair-children"),
                _ => assert!(false, "C14/pair-children"),
            }
        }
        Err(ref e) => {
            assert!(matches!(e, EvalErr::TooManyPairs), "C13/unexpected-error-kind");
            assert!(before.pairs + 1 > MAXP, "C13/too-many-pairs-only-when-cap-exceeded");
            assert!(after.atoms == before.atoms && after.pairs == before.pairs && after.heap == before.heap,
                "C13/failed-op-leaves-counts-unchanged");
        }
    }
    kani::cover!(r.is_err(), "pair cap hit");
    kani::cover!(r.is_ok(), "pair created");
    inv(&p);
    if contents { contents_unchanged(&p); }
    std::mem::forget(p);
}
proof! { #[kani::unwind(8)] fn c12_step_new_pair_limits() { step_new_pair(false); } }
proof! { #[kani::unwind(8)] fn c12_step_new_pair_contents() { step_new_pair(true); } }

// ---- add_ghost_atom / add_ghost_pair (used by run_program entry and by the back-reference decoder)
fn step_add_ghost(contents: bool) {
    let mut p = mk_pre(contents, CONCRETE_LIMIT);
    let before = counts(&p.a);
    let n: usize = kani::any();
    kani::assume(n <= 2 * MAXA);
    let atoms: bool = kani::any();
    let r = if atoms { p.a.add_ghost_atom(n) } else { p.a.add_ghost_pair(n) };
    let after = counts(&p.a);
    let cur = if atoms { before.atoms } else { before.pairs };
    match r {
        Ok(()) => {
            assert!(cur + n <= MAXA, "C13/ghost-cap-must-fail-when-exceeded");
            if atoms {
                assert!(after.atoms == before.atoms + n && after.pairs == before.pairs, "C12/ghost-atoms-count");
            } else {
                assert!(after.pairs == before.pairs + n && after.atoms == before.atoms, "C12/ghost-pairs-count");
            }
            assert!(after.heap == before.heap, "C12/ghost-leaves-heap");
        }
        Err(ref e) => {
            assert!(cur + n > MAXA, "C13/ghost-fails-only-when-cap-exceeded");
            if atoms {
                assert!(matches!(e, EvalErr::TooManyAtoms), "C13/unexpected-error-kind");
            } else {
                assert!(matches!(e, EvalErr::TooManyPairs), "C13/unexpected-error-kind");
            }
            assert!(after.atoms == before.atoms && after.pairs == before.pairs && after.heap == before.heap,
                "C13/failed-op-leaves-counts-unchanged");
        }
    }
    kani::cover!(r.is_err() && atoms, "ghost atom cap hit");
    kani::cover!(r.is_err() && !atoms, "ghost pair cap hit");
    kani::cover!(r.is_ok() && n > 0, "ghost added");
    inv(&p);
    if contents { contents_unchanged(&p); }
    std::mem::forget(p);
}
proof! { #[kani::unwind(8)] fn c12_step_add_ghost_limits() { step_add_ghost(false); } }
proof! { #[kani::unwind(8)] fn c12_step_add_ghost_contents() { step_add_ghost(true); } }

// ---- new_substr of one parent representation W (0 heap, 1 view, 2 inline), symbolic bounds
fn step_new_substr<const W: u8>(contents: bool) {
    let mut p = mk_pre(contents, CONCRETE_LIMIT);
    let before = counts(&p.a);
    let (node, plen) = match W {
        0 => (p.heap, 6usize),
        1 => (p.view, (p.ve - p.vs) as usize),
        _ => (p.small, min_len_u32(p.sv)),
    };
    let s: u32 = kani::any();
    let e: u32 = kani::any();
    let r = p.a.new_substr(node, s, e);
    let after = counts(&p.a);
    let in_bounds = s <= e && (e as usize) <= plen;
    let mut saw_noncanon = false;
    let mut noncanon_grew = false;
    let mut noncanon_over = false;
    let mut saw_shared = false;
    match &r {
        Ok(n) => {
            assert!(in_bounds, "C12/substr-out-of-bounds-must-fail");
            assert!(before.atoms + 1 <= MAXA, "C13/atom-cap-must-fail-when-exceeded");
            assert!(after.atoms == before.atoms + 1, "C12/new-atom-counts-once");
            assert!(after.pairs == before.pairs, "C12/pairs-unchanged-by-atom-op");
            if is_inline_parent(W) && matches!(p.a.node(*n), clvmr::allocator::NodeVisitor::Buffer(_)) {
                // substring of an inline atom whose slice is not a canonical small integer
                // (checked at the very end, after the cover points: a failing assertion ends the path)
                noncanon_grew = after.heap != before.heap;
                noncanon_over = after.heap > p.limit;
                saw_noncanon = true;
            } else {
                assert!(after.heap == before.heap, "C12/substr-shares-parent-bytes");
                assert!(after.heap <= p.limit, "C13/heap-size-within-limit");
                saw_shared = true;
            }
            assert!(p.a.atom_len(*n) == (e - s) as usize, "C14/substr-length");
            if contents {
                // the new atom's bytes are the parent's slice
                let at = p.a.atom(*n);
                let sl = at.as_ref();
                let mut i = 0usize;
                while i < sl.len() {
                    let expect = match W {
                        0 => p.hb[s as usize + i],
                        1 => p.hb[p.vs as usize + s as usize + i],
                        _ => (p.sv >> (8 * (plen - 1 - (s as usize + i)))) as u8,
                    };
                    assert!(sl[i] == expect, "C14/substr-bytes");
                    i += 1;
                }
            }
        }
        Err(err) => {
            match err {
                EvalErr::TooManyAtoms => assert!(before.atoms + 1 > MAXA, "C13/too-many-atoms-only-when-cap-exceeded"),
                EvalErr::InvalidAllocArg(_, _) => assert!(!in_bounds, "C12/substr-in-bounds-must-succeed"),
                _ => assert!(false, "C13/unexpected-error-kind"),
            }
            assert!(after.atoms == before.atoms && after.pairs == before.pairs && after.heap == before.heap,
                "C13/failed-op-leaves-counts-unchanged");
        }
    }
    kani::cover!(matches!(r, Err(EvalErr::TooManyAtoms)), "atom cap hit");
    kani::cover!(matches!(r, Err(EvalErr::InvalidAllocArg(_, _))), "bounds error");
    kani::cover!(W != 2 || saw_noncanon, "inline parent, non-canonical slice (inline-parent harness only)");
    kani::cover!(saw_shared, "substr sharing the parent's bytes");
    assert!(after.atoms <= MAXA, "C13/atom-count-within-cap");
    if contents { contents_unchanged(&p); }
    kani::cover!(W != 2 || noncanon_grew, "inline parent, non-canonical slice: heap grew");
    // (the C13 assertion first: a failing assertion ends the path, and exceeding the limit implies growth)
    assert!(!noncanon_over, "C13/new_substr/inline-parent-noncanonical-slice-heap-limit");
    assert!(!noncanon_grew, "C12/new_substr/inline-parent-noncanonical-slice");
    std::mem::forget(p);
}
proof! { #[kani::unwind(8)] fn c12_step_new_substr_heap_limits() { step_new_substr::<0>(false); } }
proof! { #[kani::unwind(8)] fn c12_step_new_substr_heap_contents() { step_new_substr::<0>(true); } }
proof! { #[kani::unwind(8)] fn c12_step_new_substr_view_limits() { step_new_substr::<1>(false); } }
proof! { #[kani::unwind(8)] fn c12_step_new_substr_view_contents() { step_new_substr::<1>(true); } }
proof! { #[kani::unwind(8)] fn c12_step_new_substr_inline_limits() { step_new_substr::<2>(false); } }
proof! { #[kani::unwind(8)] fn c12_step_new_substr_inline_contents() { step_new_substr::<2>(true); } }

// ---- new_concat with K terms of concrete representations (0 heap, 1 view, 2 inline; one harness per
// combination), any declared size
fn step_new_concat<const K: usize>(kinds: [u8; K], contents: bool) {
    let mut p = mk_pre(contents, 24);
    let before = counts(&p.a);
    let mut terms = [NodePtr::NIL; K];
    let mut total = 0usize;
    let mut i = 0;
    while i < K {
        let (n, l) = match kinds[i] {
            0 => (p.heap, 6usize),
            1 => (p.view, (p.ve - p.vs) as usize),
            _ => (p.small, min_len_u32(p.sv)),
        };
        terms[i] = n;
        total += l;
        i += 1;
    }
    let size: usize = kani::any();
    kani::assume(size <= 32);
    let r = p.a.new_concat(size, &terms);
    let after = counts(&p.a);
    match &r {
        Ok(n) => {
            assert!(size == total, "C12/concat-wrong-size-must-fail");
            assert!(before.atoms + 1 <= MAXA, "C13/atom-cap-must-fail-when-exceeded");
            assert!(before.heap + size <= p.limit, "C13/heap-cap-must-fail-when-exceeded");
            assert!(after.atoms == before.atoms + 1, "C12/new-atom-counts-once");
            assert!(after.pairs == before.pairs, "C12/pairs-unchanged-by-atom-op");
            assert!(after.heap == before.heap + size, "C12/heap-grows-by-new-bytes");
            assert!(p.a.atom_len(*n) == size, "C14/concat-length");
            kani::cover!(true, "concat succeeded");
        }
        Err(err) => {
            match err {
                EvalErr::TooManyAtoms => assert!(before.atoms + 1 > MAXA, "C13/too-many-atoms-only-when-cap-exceeded"),
                EvalErr::OutOfMemory => assert!(before.heap + size > p.limit, "C13/out-of-memory-only-when-limit-exceeded"),
                EvalErr::InternalError(_, _) => assert!(size != total, "C12/concat-right-size-must-succeed"),
                _ => assert!(false, "C13/unexpected-error-kind"),
            }
            assert!(after.atoms == before.atoms && after.pairs == before.pairs && after.heap == before.heap,
                "C13/failed-op-leaves-counts-unchanged");
        }
    }
    kani::cover!(matches!(r, Err(EvalErr::OutOfMemory)), "heap limit hit");
    kani::cover!(matches!(r, Err(EvalErr::InternalError(_, _))), "size mismatch");
    inv(&p);
    if contents { contents_unchanged(&p); }
    std::mem::forget(p);
}
proof! { #[kani::unwind(8)] fn c12_step_new_concat0_limits() { step_new_concat::<0>([], false); } }
proof! { #[kani::unwind(8)] fn c12_step_new_concat0_contents() { step_new_concat::<0>([], true); } }
proof! { #[kani::unwind(8)] fn c12_step_new_concat1_heap_limits() { step_new_concat::<1>([0], false); } }
proof! { #[kani::unwind(8)] fn c12_step_new_concat1_view_limits() { step_new_concat::<1>([1], false); } }
proof! { #[kani::unwind(8)] fn c12_step_new_concat1_inline_limits() { step_new_concat::<1>([2], false); } }
proof! { #[kani::unwind(8)] fn c12_step_new_concat1_inline_contents() { step_new_concat::<1>([2], true); } }
proof! { #[kani::unwind(8)] fn c12_step_new_concat2_heap_inline_limits() { step_new_concat::<2>([0, 2], false); } }
proof! { #[kani::unwind(8)] fn c12_step_new_concat2_inline_view_limits() { step_new_concat::<2>([2, 1], false); } }
proof! { #[kani::unwind(8)] fn c12_step_new_concat2_view_heap_limits() { step_new_concat::<2>([1, 0], false); } }
proof! { #[kani::unwind(8)] fn c12_step_new_concat2_inline_inline_limits() { step_new_concat::<2>([2, 2], false); } }
proof! { #[kani::unwind(8)] fn c12_step_new_concat2_heap_inline_contents() { step_new_concat::<2>([0, 2], true); } }
proof! { #[kani::unwind(8)] fn c12_step_new_concat3_heap_view_inline_limits() { step_new_concat::<3>([0, 1, 2], false); } }
proof! { #[kani::unwind(8)] fn c12_step_new_concat3_inline_heap_view_contents() { step_new_concat::<3>([2, 0, 1], true); } }

// ---- checkpoint / restore (full or transparent) around a batch of allocations
fn step_checkpoints(contents: bool, transparent: bool) {
    let mut p = mk_pre(contents, 64);
    let c0 = counts(&p.a);
    let cp = p.a.checkpoint();
    let tcp = p.a.transparent_checkpoint();
    // a batch of later allocations of every kind (each may fail near a cap: then it is skipped)
    let b: [u8; 5] = kani::any();
    let _ = p.a.new_atom(&b);
    let sv: u32 = kani::any();
    kani::assume(sv < (1 << 26));
    let _ = if contents { Ok(p.small) } else { p.a.new_small_number(sv) };
    let _ = p.a.new_pair(p.heap, p.pair);
    let s: u32 = kani::any();
    let e: u32 = kani::any();
    let _ = p.a.new_substr(p.heap, s, e);
    let c1 = counts(&p.a);
    kani::cover!(c1.atoms == c0.atoms + (if contents { 2 } else { 3 }) && c1.pairs == c0.pairs + 1, "whole batch allocated");
    if transparent {
        p.a.restore_transparent_checkpoint(&tcp);
        let c2 = counts(&p.a);
        assert!(c2.atoms == c1.atoms && c2.pairs == c1.pairs && c2.heap == c1.heap,
            "C12/transparent-restore-leaves-counts");
    } else {
        p.a.restore_checkpoint(&cp);
        let c2 = counts(&p.a);
        assert!(c2.atoms == c0.atoms && c2.pairs == c0.pairs && c2.heap == c0.heap,
            "C12/full-restore-resets-counts");
    }
    inv(&p);
    if contents { contents_unchanged(&p); }
    // the allocator keeps working after the restore: one more atom counts once
    let c3 = counts(&p.a);
    if !contents {
        let r = p.a.new_atom(&b);
        expect_atom_result(&p, c3, &r, 5, true);
    } else {
        // a node created after the restore reuses the released slots; earlier nodes must be unaffected
        let r = p.a.new_pair(p.small, p.view);
        kani::assume(r.is_ok());
        contents_unchanged(&p);
    }
    std::mem::forget(p);
}
proof! { #[kani::unwind(8)] fn c12_step_checkpoint_full_limits() { step_checkpoints(false, false); } }
proof! { #[kani::unwind(8)] fn c12_step_checkpoint_full_contents() { step_checkpoints(true, false); } }
proof! { #[kani::unwind(8)] fn c12_step_checkpoint_transparent_limits() { step_checkpoints(false, true); } }
proof! { #[kani::unwind(8)] fn c12_step_checkpoint_transparent_contents() { step_checkpoints(true, true); } }

// ---- maybe_restore_with_node (value-preserving restore used by ENABLE_GC): a transparent checkpoint, then
// 130 pairs (1040 bytes of savings, above MIN_SAVINGS) and a return value of each NodeStatus class
fn step_maybe_restore(kind: u8) {
    // (no symbolic ghost counts here: they would make the success of each of the 130 new_pair calls, and with
    // it the pair vector's length and every reallocation, symbolic - measured: no result in 25 minutes)
    let mut p = pre_with(Some((1, 4)), Some(1000), false);
    let cp = p.a.transparent_checkpoint();
    // the return value: 0 = node older than the checkpoint, 1 = new atom with new bytes (L symbolic bytes),
    // 2 = new view of old bytes, 3 = new pair, 4 = inline small atom
    let b: [u8; 5] = kani::any();
    let ret = match kind {
        0 => p.heap,
        1 => { let r = p.a.new_atom(&b); kani::assume(r.is_ok()); r.unwrap() }
        2 => { let r = p.a.new_substr(p.heap, 1, 5); kani::assume(r.is_ok()); r.unwrap() }
        3 => { let r = p.a.new_pair(p.heap, p.small); kani::assume(r.is_ok()); r.unwrap() }
        _ => p.small,
    };
    let mut i = 0;
    let mut all = true;
    while i < 130 {
        all = all && p.a.new_pair(p.small, p.small).is_ok();
        i += 1;
    }
    kani::assume(all);
    let before = counts(&p.a);
    let r = p.a.maybe_restore_with_node(&cp, ret);
    let after = counts(&p.a);
    match r {
        Ok(m) => {
            assert!(after.atoms == before.atoms && after.pairs == before.pairs && after.heap == before.heap,
                "C12/value-preserving-restore-leaves-counts");
            match m {
                MaybeRestore::NoReplace => {
                    assert!(kind == 0 || kind == 4, "C04/no-replace-only-for-nodes-that-survive");
                }
                MaybeRestore::Replace(n) => {
                    assert!(kind == 1 || kind == 2, "C04/replace-only-for-invalidated-atoms");
                    // the replacement has the same bytes as the original return value
                    let at = p.a.atom(n);
                    let s = at.as_ref();
                    if kind == 1 {
                        assert!(s.len() == 5, "C04/replacement-has-the-same-bytes");
                        let mut j = 0;
                        while j < 5 { assert!(s[j] == b[j], "C04/replacement-has-the-same-bytes"); j += 1; }
                    } else {
                        assert!(s.len() == 4, "C04/replacement-has-the-same-bytes");
                        let mut j = 0;
                        while j < 4 { assert!(s[j] == p.hb[1 + j], "C04/replacement-has-the-same-bytes"); j += 1; }
                    }
                }
                MaybeRestore::Aborted => {
                    assert!(kind == 3, "C04/abort-only-for-trees");
                }
            }
        }
        Err(_) => assert!(false, "C04/maybe-restore-never-fails-with-internal-error"),
    }
    kani::cover!(after.atoms == before.atoms, "restore decision taken with more than 1024 bytes of savings");
    inv(&p);
    if kind != 1 {
        contents_unchanged(&p);
    }
    std::mem::forget(p);
}
proof! { #[kani::unwind(132)] fn c12_step_maybe_restore_before() { step_maybe_restore(0); } }
proof! { #[kani::unwind(132)] fn c12_step_maybe_restore_new_bytes() { step_maybe_restore(1); } }
proof! { #[kani::unwind(132)] fn c12_step_maybe_restore_old_bytes() { step_maybe_restore(2); } }
proof! { #[kani::unwind(132)] fn c12_step_maybe_restore_pair() { step_maybe_restore(3); } }
proof! { #[kani::unwind(132)] fn c12_step_maybe_restore_inline() { step_maybe_restore(4); } }
