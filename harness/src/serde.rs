//! C15/C16 — classic serialization kernels and decoders.
use crate::util::*;
use clvmr::allocator::{Allocator, NodePtr, SExp};
use clvmr::error::EvalErr;
use clvmr::serde::verif_hooks::{decode_size_with_offset, write_atom_encoding_prefix_with_size, atom_length_bits, node_to_stream};
use clvmr::serde::{node_from_bytes, node_from_bytes_backrefs, node_from_bytes_backrefs_old, parse_triples, ParsedTriple, serialized_length_from_bytes_trusted, serialized_length_from_bytes, is_canonical_serialization, serialized_length_atom};
use std::io::Cursor;

/// minimal prefix length for an atom of `size` bytes whose first byte is `a0`
fn model_prefix_len(size: u64, a0: u8) -> Option<usize> {
    if size == 0 { Some(1) }
    else if size == 1 && a0 < 0x80 { Some(0) }
    else if size < 0x40 { Some(1) }
    else if size < 0x2000 { Some(2) }
    else if size < 0x10_0000 { Some(3) }
    else if size < 0x800_0000 { Some(4) }
    else if size < 0x4_0000_0000 { Some(5) }
    else { None }
}

// every size (full u64 range) and first byte: the written prefix is the minimal one, declares `size`,
// decodes back to (prefix length, size); sizes >= 2^34 are rejected
kernel_proof! {
    #[kani::unwind(9)]
    fn c15_prefix_roundtrip_all_sizes() {
        let size: u64 = kani::any();
        let a0: u8 = kani::any();
        let mut w: FixedBuf<8> = FixedBuf::new();
        let r = write_atom_encoding_prefix_with_size(&mut w, a0, size);
        match model_prefix_len(size, a0) {
            None => {
                assert!(r.is_err(), "C15/prefix/size-2^34-or-more-must-be-rejected");
                kani::cover!(true, "oversize rejected");
            }
            Some(pl) => {
                assert!(r.is_ok(), "C15/prefix/valid-size-must-encode");
                assert!(w.len == pl, "C15/prefix/length-is-minimal");
                if size == 0 {
                    assert!(w.buf[0] == 0x80, "C15/prefix/empty-atom-is-0x80");
                } else if pl > 0 {
                    // leading ones = prefix length, followed by a zero bit
                    assert!(w.buf[0].leading_ones() as usize == pl, "C15/prefix/leading-ones-declare-prefix-length");
                    let rest: [u8; 7] = [w.buf[1], w.buf[2], w.buf[3], w.buf[4], w.buf[5], w.buf[6], w.buf[7]];
                    let mut c = Cursor::new(&rest[..pl - 1]);
                    let d = decode_size_with_offset(&mut c, w.buf[0]);
                    match d {
                        Ok((off, sz)) => {
                            assert!(off as usize == pl, "C15/prefix/decode-offset-equals-prefix-length");
                            assert!(sz == size, "C15/prefix/decode-size-roundtrips");
                            assert!(c.position() as usize == pl - 1, "C15/prefix/decode-consumes-the-prefix");
                        }
                        Err(_) => assert!(false, "C15/prefix/own-prefix-must-decode"),
                    }
                    kani::cover!(pl == 5 && size == 0x3_ffff_ffff, "largest encodable size");
                    kani::cover!(pl == 2 && size == 0x40, "smallest 2-byte prefix");
                }
                if size >= 1 {
                    // the back-reference serializer's length kernel agrees: an atom whose top bit is set
                    // (size * 8 significant bits) takes prefix(first byte >= 0x80) + size bytes
                    let p80 = model_prefix_len(size, 0x80).unwrap() as u64;
                    assert!(atom_length_bits(size * 8) == Some(p80 + size), "C15/prefix/atom_length_bits-equals-prefix-plus-body");
                }
            }
        }
    }
}

// every 6-byte buffer whose first byte has the top bit set: decode_size_with_offset against the format
kernel_proof! {
    #[kani::unwind(9)]
    fn c16_decode_size_all_prefixes() {
        let b: [u8; 7] = kani::any();
        kani::assume(b[0] & 0x80 != 0);
        let avail: usize = kani::any();
        kani::assume(avail <= 6);
        let mut c = Cursor::new(&b[1..1 + avail]);
        let r = decode_size_with_offset(&mut c, b[0]);
        let ones = b[0].leading_ones() as usize;
        // the value the prefix denotes
        let mut v: u64 = (b[0] & (0xffu8.checked_shr(ones as u32).unwrap_or(0))) as u64;
        let mut i = 1;
        while i < ones && i < 7 {
            v = (v << 8) | b[i] as u64;
            i += 1;
        }
        let well_formed = ones <= 6 && ones - 1 <= avail && v < 0x4_0000_0000;
        match r {
            Ok((off, sz)) => {
                assert!(well_formed, "C16/decode_size/malformed-prefix-must-be-rejected");
                assert!(off as usize == ones && sz == v, "C16/decode_size/value-and-offset");
                assert!(c.position() as usize == ones - 1, "C16/decode_size/consumes-exactly-the-prefix");
                kani::cover!(ones == 6, "6-byte prefix accepted");
            }
            Err(e) => {
                assert!(!well_formed, "C16/decode_size/well-formed-prefix-must-decode");
                assert!(matches!(e, EvalErr::SerializationError), "C16/decode_size/error-kind-is-bad-encoding");
                kani::cover!(ones <= 6 && ones - 1 > avail, "truncated prefix");
                kani::cover!(ones == 6 && ones - 1 <= avail, "prefix value 2^34 or more");
                kani::cover!(ones >= 7, "7 or 8 leading ones");
            }
        }
    }
}

// ---- one byte-string template (structure concrete, payload symbolic) against the outcome computed by a
// reference decoder of the format at generation time (harness/gen_serde.py: accepted?, bytes consumed, canonical?)
fn classic_reject(b: &[u8], length_probes_reject: bool) {
    let mut a = Allocator::new();
    let r = node_from_bytes(&mut a, b);
    assert!(matches!(r, Err(EvalErr::SerializationError)), "C16/node_from_bytes-rejects-malformed-input-with-bad-encoding");
    if length_probes_reject {
        assert!(serialized_length_from_bytes_trusted(b).is_err(), "C16/trusted-length-rejects-what-the-decoder-rejects");
        assert!(serialized_length_from_bytes(b).is_err(), "C16/untrusted-length-rejects-what-the-decoder-rejects");
    }
    let mut c = Cursor::new(b);
    let t = parse_triples(&mut c, false);
    assert!(t.is_err(), "C16/parse_triples-rejects-what-the-decoder-rejects");
    if length_probes_reject {
        // (is_canonical_serialization and the length probes also understand back-reference markers, so
        // for inputs containing 0xfe - which the classic decoder rejects - nothing is required of them)
        assert!(!is_canonical_serialization(b), "C16/rejected-input-is-not-canonical");
    }
    assert!(a.pair_count() <= b.len() && a.heap_size() <= 1 + b.len(), "C16/decoder-does-not-over-allocate");
    kani::cover!(true, "all decoders reject");
    std::mem::forget(t);
    std::mem::forget(r);
    std::mem::forget(a);
}

fn classic_accept(b: &[u8], consumed: usize, canon: bool, reserialize: bool) {
    let n_in = b.len();
    let mut a = Allocator::new();
    let r = node_from_bytes(&mut a, b);
    let n = match r {
        Ok(n) => n,
        Err(_) => { assert!(false, "C16/node_from_bytes-accepts-well-formed-input"); return; }
    };
    assert!(matches!(serialized_length_from_bytes_trusted(b), Ok(l) if l as usize == consumed), "C16/trusted-length-equals-bytes-consumed");
    assert!(matches!(serialized_length_from_bytes(b), Ok(l) if l as usize == consumed), "C15/untrusted-length-equals-byte-count");
    assert!(a.heap_size() <= 1 + n_in && a.atom_count() <= 2 + n_in && a.pair_count() <= n_in, "C16/decoder-does-not-over-allocate");
    let mut c = Cursor::new(b);
    let t = parse_triples(&mut c, false);
    match &t {
        Ok((tr, _)) => {
            assert!(c.position() as usize == consumed, "C16/parse_triples-consumes-the-same-bytes");
            match &tr[0] {
                ParsedTriple::Atom { start, end, .. } => assert!(*start == 0 && *end as usize == consumed && n.is_atom(), "C16/root-triple-spans-input"),
                ParsedTriple::Pair { start, end, .. } => assert!(*start == 0 && *end as usize == consumed && n.is_pair(), "C16/root-triple-spans-input"),
            }
        }
        Err(_) => assert!(false, "C16/parse_triples-accepts-what-the-decoder-accepts"),
    }
    assert!(is_canonical_serialization(b) == canon, "C16/canonical-iff-minimal-encoding-of-the-whole-input");
    kani::cover!(true, "well-formed input decoded by all decoders");
    if !reserialize {
        std::mem::forget(t);
        std::mem::forget(a);
        return;
    }
    // re-serialize: identical to the consumed bytes exactly when the input was canonical
    let mut w: FixedBuf<40> = FixedBuf::new();
    let rs = node_to_stream(&a, n, &mut w);
    assert!(rs.is_ok(), "C15/decoded-tree-must-serialize");
    let mut same = w.len == consumed;
    let mut i = 0;
    while i < consumed {
        if i < w.len && w.buf[i] != b[i] { same = false; }
        i += 1;
    }
    if consumed == n_in {
        assert!(same == canon, "C15/reserialization-identical-iff-canonical");
    } else {
        assert!(!canon, "C16/trailing-bytes-are-not-canonical");
    }
    std::mem::forget(t);
    std::mem::forget(a);
}

/// structural equality across two allocators
fn tree_eq2(a: &Allocator, x: NodePtr, b: &Allocator, y: NodePtr, depth: u32) -> bool {
    match (a.sexp(x), b.sexp(y)) {
        (SExp::Atom, SExp::Atom) => {
            let ax = a.atom(x);
            let by = b.atom(y);
            let (sx, sy) = (ax.as_ref(), by.as_ref());
            if sx.len() != sy.len() { return false; }
            let mut i = 0;
            while i < sx.len() {
                if sx[i] != sy[i] { return false; }
                i += 1;
            }
            true
        }
        (SExp::Pair(xl, xr), SExp::Pair(yl, yr)) => {
            assert!(depth > 0, "harness bound: tree deeper than the comparison bound");
            tree_eq2(a, xl, b, yl, depth - 1) && tree_eq2(a, xr, b, yr, depth - 1)
        }
        _ => false,
    }
}

// ---- back-reference decoders against the outcome computed by the reference decoder at generation time
fn backrefs_reject(b: &[u8]) {
    let mut a1 = Allocator::new();
    let mut a2 = Allocator::new();
    let r1 = node_from_bytes_backrefs(&mut a1, b);
    let r2 = node_from_bytes_backrefs_old(&mut a2, b);
    assert!(r1.is_err(), "C18/current-decoder-rejects-malformed-input");
    assert!(r2.is_err(), "C18/legacy-decoder-rejects-malformed-input");
    assert!(serialized_length_from_bytes(b).is_err(), "C18/length-probe-rejects-what-the-decoders-reject");
    // (the two decoders report different error kinds for a path that runs into an atom -
    // SerializationBackreferenceError vs PathIntoAtom; C18 only requires the same accept set)
    kani::cover!(true, "both decoders reject");
    std::mem::forget(r1);
    std::mem::forget(r2);
    std::mem::forget(a1);
    std::mem::forget(a2);
}

fn expect_tree(a: &Allocator, n: NodePtr, expect: &[u8]) -> bool {
    let mut w: FixedBuf<40> = FixedBuf::new();
    if node_to_stream(a, n, &mut w).is_err() || w.len != expect.len() {
        return false;
    }
    let mut i = 0;
    while i < expect.len() {
        if w.buf[i] != expect[i] {
            return false;
        }
        i += 1;
    }
    true
}

fn backrefs_accept(b: &[u8], consumed: usize, expect: &[u8]) {
    let mut a1 = Allocator::new();
    let mut a2 = Allocator::new();
    let r1 = node_from_bytes_backrefs(&mut a1, b);
    let r2 = node_from_bytes_backrefs_old(&mut a2, b);
    let n1 = match r1 { Ok(n) => n, Err(_) => { assert!(false, "C18/current-decoder-accepts-well-formed-input"); return; } };
    let n2 = match r2 { Ok(n) => n, Err(_) => { assert!(false, "C18/legacy-decoder-accepts-well-formed-input"); return; } };
    // identical trees: both equal the expected tree (compared through the classic serialization, which is injective)
    assert!(expect_tree(&a1, n1, expect), "C18/current-decoder-produces-the-referenced-tree");
    assert!(expect_tree(&a2, n2, expect), "C18/legacy-decoder-produces-the-referenced-tree");
    assert!(a1.pair_count() == a2.pair_count(), "C18/decoders-leave-identical-pair-counts");
    assert!(matches!(serialized_length_from_bytes(b), Ok(l) if l as usize == consumed), "C18/length-probe-reports-bytes-consumed");
    kani::cover!(true, "both decoders accept");
    std::mem::forget(a1);
    std::mem::forget(a2);
}

include!("gen_serde.rs");


