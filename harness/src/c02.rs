//! C02 operator lemma (+ C25 at operator level): for every operator, the budget only flows into cost
//! checks. The operator is run twice on the same arguments and flags: with the unlimited budget
//! (what run_program passes for max_cost = 0) and with a symbolic budget.
use crate::ops::*;
use crate::util::*;
use clvmr::chia_dialect::ClvmFlags;
use clvmr::cost::Cost;

pub(crate) fn cost_flags() -> ClvmFlags {
    ClvmFlags::NEW_COST_MODEL | ClvmFlags::LIMITS | ClvmFlags::DISABLE_OP | ClvmFlags::CANONICAL_INTS
}

pub(crate) fn budget_case<const MAXB: usize>(op: OpFn, specs: &[A], mask: ClvmFlags) {
    let mut e = Env::new();
    let args = e.list(specs);
    let flags = any_flags(mask);
    let b: Cost = kani::any();
    let unl = op(&mut e.a, args, Cost::MAX, flags);
    let lim = op(&mut e.a, args, b, flags);
    check_budget_lemma::<MAXB>(&e.a, &unl, &lim, b);
    kani::cover!(unl.is_ok() && lim.is_err(), "budget too small");
    std::mem::forget(unl);
    std::mem::forget(lim);
    std::mem::forget(e);
}

include!("gen_c02.rs");

pub(crate) fn probe_case(op: OpFn, specs: &[A]) {
    let mut e = Env::new();
    let args = e.list(specs);
    let flags = any_flags(cost_flags());
    let b: Cost = kani::any();
    let r = op(&mut e.a, args, b, flags);
    if let Err(err) = &r { assert!(!is_internal(err), "C25/op-never-internal-error"); }
    std::mem::forget(r);
    std::mem::forget(e);
}
include!("gen_opp.rs");
