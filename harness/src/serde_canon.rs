//! C15 — is_canonical_atom kernels (through the verif-hooks re-export)
use crate::util::*;
use clvmr::serde::verif_hooks::{decode_size_with_offset, write_atom_encoding_prefix_with_size, is_canonical_atom};
use std::io::Cursor;

fn model_prefix_len(size: u64, a0: u8) -> Option<usize> {
    if size == 0 { Some(1) }
    else if size == 1 && a0 < 0x80 { Some(0) }
    else if size < 0x40 { Some(1) }
    else if size < 0x2000 { Some(2) }
    else if size < 0x10_0000 { Some(3) }
    else if size < 0x800_0000 { Some(4) }
    else if size < 0x4_0000_0000 { Some(5) }
    else { None }
}

// ---- is_canonical_atom (through the verif-hooks re-export): the serializer's own prefix for every size is judged
// canonical, and every prefix judged canonical is the minimal one for its size
kernel_proof! {
    #[kani::unwind(9)]
    fn c15_own_prefix_is_canonical_all_sizes() {
        let size: u64 = kani::any();
        kani::assume(size >= 2 && size < 0x4_0000_0000);
        let mut w: FixedBuf<8> = FixedBuf::new();
        let r = write_atom_encoding_prefix_with_size(&mut w, 0x80, size);
        assert!(r.is_ok(), "C15/prefix/valid-size-must-encode");
        let rest: [u8; 7] = [w.buf[1], w.buf[2], w.buf[3], w.buf[4], w.buf[5], w.buf[6], w.buf[7]];
        let body: &[u8] = &rest[..w.len - 1];
        let mut c = Cursor::new(body);
        assert!(is_canonical_atom(&mut c, w.buf[0]), "C15/canonical/serializer-prefix-is-judged-canonical");
        kani::cover!(size == 0x800_0000, "first size with a 5-byte prefix");
        kani::cover!(size == 0x3_ffff_ffff, "largest size");
    }
}
kernel_proof! {
    #[kani::unwind(9)]
    fn c15_canonical_prefix_is_minimal() {
        let b: [u8; 7] = kani::any();
        kani::assume(b[0] > 0x80);
        let mut c = Cursor::new(&b[1..]);
        let canon = is_canonical_atom(&mut c, b[0]);
        let mut c2 = Cursor::new(&b[1..]);
        if let Ok((off, size)) = decode_size_with_offset(&mut c2, b[0]) {
            if size != 1 {
                let minimal = model_prefix_len(size, 0x80);
                assert!(canon == (minimal == Some(off as usize) && size != 0), "C15/canonical/judged-canonical-iff-prefix-is-minimal");
            } else {
                // one-byte atoms: canonical iff one-byte prefix and the value byte is >= 0x80
                assert!(canon == (off == 1 && b[1] >= 0x80), "C15/canonical/one-byte-atom-needs-a-prefix-iff-top-bit-set");
            }
            kani::cover!(canon && off == 5, "canonical 5-byte prefix");
            kani::cover!(!canon && off == 2, "non-minimal 2-byte prefix");
        } else {
            assert!(!canon, "C15/canonical/undecodable-prefix-is-not-canonical");
        }
    }
}
