//! C09 — unknown operators follow the published opcode cost rule.
//! Oracle: the rule restated with u128 arithmetic (no wrapping, no early exits).
use crate::util::*;
use clvmr::allocator::{Allocator, NodePtr};
use clvmr::chia_dialect::ClvmFlags;
use clvmr::error::EvalErr;
use clvmr::more_ops::op_unknown;
use clvmr::reduction::Reduction;

#[derive(Clone, Copy)]
enum Arg {
    Atom(u32), // length only
    Pair,
}

/// Some(base) or None when an atom argument is required and a pair is found
fn model_base(cf: u8, new_model: bool, args: &[Arg; 3], k: usize) -> Option<u128> {
    if cf == 0 {
        return Some(1);
    }
    let mut cost: u128 = match cf {
        1 => 99,
        2 => if new_model { 2000 } else { 92 },
        _ => 142,
    };
    let mut acc: u128 = 0; // add-like: running max; mul-like: running sum
    let mut i = 0;
    while i < k {
        let len = match args[i] {
            Arg::Atom(l) => l as u128,
            Arg::Pair => return None,
        };
        match cf {
            1 => {
                if new_model {
                    if len > acc {
                        acc = len;
                    }
                    cost += 500 + 4 * acc;
                } else {
                    cost += 320 + 3 * len;
                }
            }
            2 => {
                if i == 0 {
                    acc = len;
                    if new_model {
                        cost += 6 * len;
                    }
                } else {
                    let div: u128 = if new_model { 16 } else { 128 };
                    cost += 885 + 6 * (acc + len) + (acc * len) / div;
                    acc += len;
                }
            }
            _ => {
                cost += 135 + 3 * len;
            }
        }
        i += 1;
    }
    Some(cost)
}

fn run(new_model: bool, max_args: usize) {
    let mut a = Allocator::new();
    // opcode: 1..=6 symbolic bytes, as a view of a heap atom (no symbolic-length copies)
    let ob: [u8; 8] = kani::any();
    let base_atom = a.new_atom(&ob).unwrap();
    let n: usize = kani::any();
    kani::assume(n <= 6);
    let o = a.new_substr(base_atom, 0, n as u32).unwrap();

    // argument list: k <= max_args items, each an atom of symbolic length (up to 2^32-1) or a pair
    let k: usize = kani::any();
    kani::assume(k <= max_args);
    let mut margs = [Arg::Atom(0); 3];
    let term_pair: bool = kani::any();
    let mut list = if term_pair { a.nil() } else { a.one() }; // improper terminators are ignored
    let some_pair = a.new_pair(list, list).unwrap();
    let mut i = max_args;
    while i > 0 {
        i -= 1;
        let is_pair: bool = kani::any();
        let len: u32 = kani::any();
        let node = if is_pair { some_pair } else { a.verif_atom_span(0, len) };
        margs[i] = if is_pair { Arg::Pair } else { Arg::Atom(len) };
        if i < k {
            list = a.new_pair(node, list).unwrap();
        }
    }
    let max_cost: u64 = kani::any();
    let flags = if new_model { ClvmFlags::NEW_COST_MODEL } else { ClvmFlags::empty() };
    let r = op_unknown(&mut a, o, list, max_cost, flags);

    // ---- the published rule
    let reserved = n == 0 || (n >= 2 && ob[0] == 0xff && ob[1] == 0xff);
    let too_long = n > 5;
    if reserved || too_long {
        assert!(r.is_err(), "C09/op_unknown/reserved-or-too-long-opcode-must-fail");
        kani::cover!(reserved && n >= 2, "0xffff prefix");
        kani::cover!(too_long && !reserved, "6-byte opcode");
        std::mem::forget(a);
        return;
    }
    let cf = ob[n - 1] >> 6;
    let mut mult: u128 = 0;
    let mut j = 0;
    while j + 1 < n {
        mult = (mult << 8) | ob[j] as u128;
        j += 1;
    }
    match model_base(cf, new_model, &margs, k) {
        None => {
            assert!(r.is_err(), "C09/op_unknown/pair-argument-must-fail");
            kani::cover!(true, "pair where an atom is required");
        }
        Some(base) => {
            let product = base * (mult + 1);
            if base > max_cost as u128 {
                assert!(matches!(r, Err(EvalErr::CostExceeded)), "C09/op_unknown/base-over-budget-must-fail-cost-exceeded");
                kani::cover!(true, "base exceeds the budget");
            } else if product > u32::MAX as u128 {
                if !new_model && product >= (1u128 << 64) {
                    assert!(r.is_err(), "C09/op_unknown/legacy-product-wraps-u64");
                    kani::cover!(true, "legacy product overflows 64 bits");
                } else {
                    assert!(r.is_err(), "C09/op_unknown/product-over-2^32-must-fail");
                    kani::cover!(product >= (1u128 << 64), "product overflows 64 bits");
                    kani::cover!(product < (1u128 << 64), "product in (2^32, 2^64)");
                }
            } else {
                match r {
                    Ok(Reduction(c, v)) => {
                        assert!(c as u128 == product, "C09/op_unknown/cost-is-(multiplier+1)*base");
                        assert!(v == a.nil(), "C09/op_unknown/result-is-nil");
                        kani::cover!(cf == 0, "constant cost function");
                        kani::cover!(cf == 1 && k >= 1, "add-like with arguments");
                        kani::cover!(cf == 2 && k >= 2, "mul-like with >= 2 arguments");
                        kani::cover!(cf == 3 && k >= 1, "concat-like with arguments");
                        kani::cover!(mult > 0xffff, "3+ byte multiplier");
                    }
                    Err(_) => assert!(false, "C09/op_unknown/valid-opcode-within-bounds-must-succeed"),
                }
            }
        }
    }
    std::mem::forget(a);
}

proof! {
    #[kani::unwind(10)]
    fn c09_unknown_legacy_2args() { run(false, 2); }
}
proof! {
    #[kani::unwind(10)]
    fn c09_unknown_newmodel_2args() { run(true, 2); }
}
proof! {
    #[kani::unwind(10)]
    fn c09_unknown_legacy_3args() { run(false, 3); }
}
proof! {
    #[kani::unwind(10)]
    fn c09_unknown_newmodel_3args() { run(true, 3); }
}
