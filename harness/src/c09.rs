//! C09 — unknown operators follow the published opcode cost rule.
//! Oracle: the rule restated with u64 arithmetic (no wrapping, no early exits).
use crate::util::*;
use clvmr::allocator::{Allocator, NodePtr};
use clvmr::chia_dialect::ClvmFlags;
use clvmr::error::EvalErr;
use clvmr::more_ops::op_unknown;
use clvmr::reduction::Reduction;

#[derive(Clone, Copy)]
enum Arg {
    Atom(u32), // length only
    Pair,
}

/// Some(base) or None when an atom argument is required and a pair is found
fn model_base(cf: u8, new_model: bool, args: &[Arg; 3], k: usize) -> Option<u64> {
    if cf == 0 {
        return Some(1);
    }
    let mut cost: u64 = match cf {
        1 => 99,
        2 => if new_model { 2000 } else { 92 },
        _ => 142,
    };
    let mut acc: u64 = 0; // add-like: running max; mul-like: running sum
    let mut i = 0;
    while i < k {
        let len = match args[i] {
            Arg::Atom(l) => l as u64,
            Arg::Pair => return None,
        };
        match cf {
            1 => {
                if new_model {
                    if len > acc {
                        acc = len;
                    }
                    cost += 500 + 4 * acc;
                } else {
                    cost += 320 + 3 * len;
                }
            }
            2 => {
                if i == 0 {
                    acc = len;
                    if new_model {
                        cost += 6 * len;
                    }
                } else {
                    let div: u64 = if new_model { 16 } else { 128 };
                    cost += 885 + 6 * (acc + len) + (acc * len) / div;
                    acc += len;
                }
            }
            _ => {
                cost += 135 + 3 * len;
            }
        }
        i += 1;
    }
    Some(cost)
}

/// N = opcode length (concrete), K = number of arguments (concrete); opcode bytes, argument lengths
/// (any u32, length-only atoms), which argument is a pair, cost model and budget are symbolic.
fn run<const N: usize, const K: usize>(new_model: bool) {
    run_cf::<N, K>(new_model, None)
}

/// `cf`: the cost-function bits made concrete (one harness per function) to keep 2-argument cases solvable
fn run_cf<const N: usize, const K: usize>(new_model: bool, cf_fixed: Option<u8>) {
    run_cf_b::<N, K>(new_model, cf_fixed, 1 << 21, true)
}

/// `len_bound`: exclusive bound on argument lengths; `pairs`: whether one argument may be a pair
fn run_cf_b<const N: usize, const K: usize>(new_model: bool, cf_fixed: Option<u8>, len_bound: u32, pairs: bool) {
    let mut a = Allocator::new();
    let mut ob: [u8; 8] = kani::any();
    if let Some(cf) = cf_fixed {
        if N >= 1 {
            ob[N - 1] = (cf << 6) | (ob[N - 1] & 0x3f);
        }
    }
    let base_atom = a.new_atom(&ob).unwrap();
    let o = a.new_substr(base_atom, 0, N as u32).unwrap();
    let n = N;

    let mut margs = [Arg::Atom(0); 3];
    let one = a.one();
    let some_pair = a.new_pair(one, one).unwrap();
    // which argument (if any) is a pair: K means none
    let pair_at: usize = kani::any();
    kani::assume(pair_at <= K);
    if !pairs {
        kani::assume(pair_at == K);
    }
    let mut nodes = [NodePtr::NIL; 3];
    let mut i = 0;
    while i < K {
        let len: u32 = kani::any();
        // bound: argument atoms shorter than 2 MiB (keeps the rule's arithmetic inside u64 without
        // 128-bit products; the legacy 64-bit wrap needs base >= 2^33, reached by two 1 MiB atoms)
        kani::assume(len < len_bound);
        if i == pair_at {
            nodes[i] = some_pair;
            margs[i] = Arg::Pair;
        } else {
            nodes[i] = a.verif_atom_span(0, len);
            margs[i] = Arg::Atom(len);
        }
        i += 1;
    }
    let mut list = a.nil();
    let mut i = K;
    while i > 0 {
        i -= 1;
        list = a.new_pair(nodes[i], list).unwrap();
    }
    let k = K;
    let max_cost: u64 = kani::any();
    let flags = if new_model { ClvmFlags::NEW_COST_MODEL } else { ClvmFlags::empty() };
    let r = op_unknown(&mut a, o, list, max_cost, flags);

    // ---- the published rule (cover points are collected in flags and checked once at the end, so
    // that shapes in which a scenario cannot occur do not report a missing witness)
    let mut w_reserved = false;
    let mut w_pair = false;
    let mut w_budget = false;
    let mut w_over = false;
    let mut w_ok = false;
    let mut w_ok_args = false;
    let mut fooled_ok = false;
    let reserved = n == 0 || (n >= 2 && ob[0] == 0xff && ob[1] == 0xff);
    let too_long = n > 5;
    if reserved || too_long {
        assert!(r.is_err(), "C09/op_unknown/reserved-or-too-long-opcode-must-fail");
        w_reserved = true;
    } else {
        let cf = ob[n - 1] >> 6;
        let mut mult: u64 = 0;
        let mut j = 0;
        while j + 1 < n {
            mult = (mult << 8) | ob[j] as u64;
            j += 1;
        }
        match model_base(cf, new_model, &margs, k) {
            None => {
                assert!(r.is_err(), "C09/op_unknown/pair-argument-must-fail");
                w_pair = true;
            }
            Some(base) => {
                // base < 2^45 here (lengths < 2^21, at most 3 arguments); the published rule wants failure
                // whenever base * (mult + 1) > 2^32 - 1 as a mathematical product
                let over = base > u32::MAX as u64 || base * (mult + 1) > u32::MAX as u64;
                if base > max_cost {
                    assert!(matches!(r, Err(EvalErr::CostExceeded)), "C09/op_unknown/base-over-budget-must-fail-cost-exceeded");
                    w_budget = true;
                } else if over {
                    // the one way an implementation can be fooled: the product wraps 64 bits to a small value
                    let fooled = base > u32::MAX as u64 && base.wrapping_mul(mult + 1) <= u32::MAX as u64;
                    if !new_model && fooled {
                        fooled_ok = r.is_ok();
                    } else {
                        assert!(r.is_err(), "C09/op_unknown/product-over-2^32-must-fail");
                    }
                    w_over = true;
                } else {
                    match r {
                        Ok(Reduction(c, v)) => {
                            assert!(c == base * (mult + 1), "C09/op_unknown/cost-is-(multiplier+1)*base");
                            assert!(v == a.nil(), "C09/op_unknown/result-is-nil");
                            w_ok = true;
                            w_ok_args = cf != 0;
                        }
                        Err(_) => assert!(false, "C09/op_unknown/valid-opcode-within-bounds-must-succeed"),
                    }
                }
            }
        }
    }
    let valid_len = N >= 1 && N <= 5;
    let all_cf = cf_fixed.is_none();
    kani::cover!(!all_cf || valid_len && N < 2 || w_reserved, "reserved / too long opcode rejected");
    kani::cover!(!all_cf || !pairs || !valid_len || K == 0 || w_pair, "pair where an atom is required");
    kani::cover!(!valid_len || w_budget, "base exceeds the budget");
    kani::cover!(!all_cf || !valid_len || !(N == 5 || (K >= 1 && N >= 3)) || w_over, "product above 2^32 - 1");
    kani::cover!(!valid_len || w_ok, "valid opcode succeeds with the published cost");
    kani::cover!(!all_cf || !valid_len || K == 0 || w_ok_args, "argument-dependent cost function succeeds");
    assert!(!fooled_ok, "C09/op_unknown/legacy-product-wraps-u64");
    std::mem::forget(a);
}

/// the legacy 64-bit wrap, posed narrowly so that the solver only has to find the witness:
/// mul-like cost function, 5-byte opcode, two atom arguments, pre-hard-fork model, unlimited budget
proof! {
    #[kani::unwind(10)]
    fn c09_legacy_wrap_mul_like() {
        let mut a = Allocator::new();
        let mb: [u8; 4] = kani::any();
        let opb = [mb[0], mb[1], mb[2], mb[3], 0x80u8, 0, 0, 0];
        kani::assume(!(mb[0] == 0xff && mb[1] == 0xff));
        let base_atom = a.new_atom(&opb).unwrap();
        let o = a.new_substr(base_atom, 0, 5).unwrap();
        let l0: u32 = kani::any();
        let l1: u32 = kani::any();
        kani::assume(l0 < (1 << 21) && l1 < (1 << 21));
        let x = a.verif_atom_span(0, l0);
        let y = a.verif_atom_span(0, l1);
        let nil = a.nil();
        let t = a.new_pair(y, nil).unwrap();
        let list = a.new_pair(x, t).unwrap();
        let r = op_unknown(&mut a, o, list, u64::MAX, ClvmFlags::empty());
        let mult = u32::from_be_bytes(mb) as u64;
        let base: u64 = 92 + 885 + 6 * (l0 as u64 + l1 as u64) + (l0 as u64 * l1 as u64) / 128;
        // mathematical product > 2^32 - 1 whenever base alone is
        if base > u32::MAX as u64 {
            kani::cover!(r.is_err(), "large base rejected");
            assert!(r.is_err(), "C09/op_unknown/legacy-product-wraps-u64");
        }
        let _ = mult;
        std::mem::forget(r);
        std::mem::forget(a);
    }
}

proof! { #[kani::unwind(10)] fn c09_unknown_op0b_0args_legacy() { run::<0, 0>(false); } }
proof! { #[kani::unwind(10)] fn c09_unknown_op1b_0args_legacy() { run::<1, 0>(false); } }
proof! { #[kani::unwind(10)] fn c09_unknown_op1b_0args_new() { run::<1, 0>(true); } }
proof! { #[kani::unwind(10)] fn c09_unknown_op1b_1args_legacy() { run::<1, 1>(false); } }
proof! { #[kani::unwind(10)] fn c09_unknown_op1b_1args_new() { run::<1, 1>(true); } }
proof! { #[kani::unwind(10)] fn c09_unknown_op1b_2args_legacy() { run::<1, 2>(false); } }
proof! { #[kani::unwind(10)] fn c09_unknown_op1b_2args_new() { run::<1, 2>(true); } }
proof! { #[kani::unwind(10)] fn c09_unknown_op1b_3args_legacy() { run::<1, 3>(false); } }
proof! { #[kani::unwind(10)] fn c09_unknown_op1b_3args_new() { run::<1, 3>(true); } }
proof! { #[kani::unwind(10)] fn c09_unknown_op2b_0args_legacy() { run::<2, 0>(false); } }
proof! { #[kani::unwind(10)] fn c09_unknown_op2b_0args_new() { run::<2, 0>(true); } }
proof! { #[kani::unwind(10)] fn c09_unknown_op2b_1args_legacy() { run::<2, 1>(false); } }
proof! { #[kani::unwind(10)] fn c09_unknown_op2b_1args_new() { run::<2, 1>(true); } }
proof! { #[kani::unwind(10)] fn c09_unknown_op2b_2args_legacy() { run::<2, 2>(false); } }
proof! { #[kani::unwind(10)] fn c09_unknown_op2b_2args_new() { run::<2, 2>(true); } }
proof! { #[kani::unwind(10)] fn c09_unknown_op2b_3args_legacy() { run::<2, 3>(false); } }
proof! { #[kani::unwind(10)] fn c09_unknown_op2b_3args_new() { run::<2, 3>(true); } }
proof! { #[kani::unwind(10)] fn c09_unknown_op3b_0args_legacy() { run::<3, 0>(false); } }
proof! { #[kani::unwind(10)] fn c09_unknown_op3b_0args_new() { run::<3, 0>(true); } }
proof! { #[kani::unwind(10)] fn c09_unknown_op3b_1args_legacy() { run::<3, 1>(false); } }
proof! { #[kani::unwind(10)] fn c09_unknown_op3b_1args_new() { run::<3, 1>(true); } }
proof! { #[kani::unwind(10)] fn c09_unknown_op3b_2args_legacy() { run::<3, 2>(false); } }
proof! { #[kani::unwind(10)] fn c09_unknown_op3b_2args_new() { run::<3, 2>(true); } }
proof! { #[kani::unwind(10)] fn c09_unknown_op3b_3args_legacy() { run::<3, 3>(false); } }
proof! { #[kani::unwind(10)] fn c09_unknown_op3b_3args_new() { run::<3, 3>(true); } }
proof! { #[kani::unwind(10)] fn c09_unknown_op4b_0args_legacy() { run::<4, 0>(false); } }
proof! { #[kani::unwind(10)] fn c09_unknown_op4b_0args_new() { run::<4, 0>(true); } }
proof! { #[kani::unwind(10)] fn c09_unknown_op4b_1args_legacy() { run::<4, 1>(false); } }
proof! { #[kani::unwind(10)] fn c09_unknown_op4b_1args_new() { run::<4, 1>(true); } }
proof! { #[kani::unwind(10)] fn c09_unknown_op4b_2args_legacy() { run::<4, 2>(false); } }
proof! { #[kani::unwind(10)] fn c09_unknown_op4b_2args_new() { run::<4, 2>(true); } }
proof! { #[kani::unwind(10)] fn c09_unknown_op4b_3args_legacy() { run::<4, 3>(false); } }
proof! { #[kani::unwind(10)] fn c09_unknown_op4b_3args_new() { run::<4, 3>(true); } }
proof! { #[kani::unwind(10)] fn c09_unknown_op5b_0args_legacy() { run::<5, 0>(false); } }
proof! { #[kani::unwind(10)] fn c09_unknown_op5b_0args_new() { run::<5, 0>(true); } }
proof! { #[kani::unwind(10)] fn c09_unknown_op5b_1args_legacy() { run::<5, 1>(false); } }
proof! { #[kani::unwind(10)] fn c09_unknown_op5b_1args_new() { run::<5, 1>(true); } }
proof! { #[kani::unwind(10)] fn c09_unknown_op5b_2args_legacy() { run::<5, 2>(false); } }
proof! { #[kani::unwind(10)] fn c09_unknown_op5b_2args_new() { run::<5, 2>(true); } }
proof! { #[kani::unwind(10)] fn c09_unknown_op5b_3args_legacy() { run::<5, 3>(false); } }
proof! { #[kani::unwind(10)] fn c09_unknown_op5b_3args_new() { run::<5, 3>(true); } }
proof! { #[kani::unwind(10)] fn c09_unknown_op6b_0args_legacy() { run::<6, 0>(false); } }
proof! { #[kani::unwind(10)] fn c09_unknown_op2b_2args_cf0_legacy() { run_cf::<2, 2>(false, Some(0)); } }
proof! { #[kani::unwind(10)] fn c09_unknown_op4b_2args_cf0_legacy() { run_cf::<4, 2>(false, Some(0)); } }
proof! { #[kani::unwind(10)] fn c09_unknown_op2b_2args_cf0_new() { run_cf::<2, 2>(true, Some(0)); } }
proof! { #[kani::unwind(10)] fn c09_unknown_op4b_2args_cf0_new() { run_cf::<4, 2>(true, Some(0)); } }
proof! { #[kani::unwind(10)] fn c09_unknown_op2b_2args_cf1_legacy() { run_cf::<2, 2>(false, Some(1)); } }
proof! { #[kani::unwind(10)] fn c09_unknown_op4b_2args_cf1_legacy() { run_cf::<4, 2>(false, Some(1)); } }
proof! { #[kani::unwind(10)] fn c09_unknown_op2b_2args_cf1_new() { run_cf::<2, 2>(true, Some(1)); } }
proof! { #[kani::unwind(10)] fn c09_unknown_op4b_2args_cf1_new() { run_cf::<4, 2>(true, Some(1)); } }
proof! { #[kani::unwind(10)] fn c09_unknown_op2b_2args_cf2_legacy() { run_cf::<2, 2>(false, Some(2)); } }
proof! { #[kani::unwind(10)] fn c09_unknown_op4b_2args_cf2_legacy() { run_cf::<4, 2>(false, Some(2)); } }
proof! { #[kani::unwind(10)] fn c09_unknown_op2b_2args_cf2_new() { run_cf::<2, 2>(true, Some(2)); } }
proof! { #[kani::unwind(10)] fn c09_unknown_op4b_2args_cf2_new() { run_cf::<4, 2>(true, Some(2)); } }
proof! { #[kani::unwind(10)] fn c09_unknown_op2b_2args_cf3_legacy() { run_cf::<2, 2>(false, Some(3)); } }
proof! { #[kani::unwind(10)] fn c09_unknown_op4b_2args_cf3_legacy() { run_cf::<4, 2>(false, Some(3)); } }
proof! { #[kani::unwind(10)] fn c09_unknown_op2b_2args_cf3_new() { run_cf::<2, 2>(true, Some(3)); } }
proof! { #[kani::unwind(10)] fn c09_unknown_op4b_2args_cf3_new() { run_cf::<4, 2>(true, Some(3)); } }
proof! { #[kani::unwind(10)] fn c09_unknown_op1b_3args_cf1_legacy() { run_cf_b::<1, 3>(false, Some(1), 1 << 12, false); } }
proof! { #[kani::unwind(10)] fn c09_unknown_op1b_3args_cf1_new() { run_cf_b::<1, 3>(true, Some(1), 1 << 12, false); } }
proof! { #[kani::unwind(10)] fn c09_unknown_op1b_3args_cf2_legacy() { run_cf_b::<1, 3>(false, Some(2), 1 << 12, false); } }
proof! { #[kani::unwind(10)] fn c09_unknown_op1b_3args_cf2_new() { run_cf_b::<1, 3>(true, Some(2), 1 << 12, false); } }
proof! { #[kani::unwind(10)] fn c09_unknown_op1b_3args_cf3_legacy() { run_cf_b::<1, 3>(false, Some(3), 1 << 12, false); } }
proof! { #[kani::unwind(10)] fn c09_unknown_op1b_3args_cf3_new() { run_cf_b::<1, 3>(true, Some(3), 1 << 12, false); } }
