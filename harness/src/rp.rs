//! run_program-level harness helpers: programs of concrete shape with symbolic atoms.
use crate::ops::*;
use crate::util::*;
use clvmr::allocator::{Allocator, NodePtr, SExp};
use clvmr::chia_dialect::{ChiaDialect, ClvmFlags};
use clvmr::cost::Cost;
use clvmr::error::EvalErr;
use clvmr::reduction::{Reduction, Response};
use clvmr::dialect::Dialect;
use clvmr::run_program::run_program;

pub fn cons(a: &mut Allocator, x: NodePtr, y: NodePtr) -> NodePtr {
    a.new_pair(x, y).unwrap()
}
pub fn lst(a: &mut Allocator, items: &[NodePtr]) -> NodePtr {
    let mut l = a.nil();
    let mut i = items.len();
    while i > 0 {
        i -= 1;
        l = a.new_pair(items[i], l).unwrap();
    }
    l
}
pub fn num(a: &mut Allocator, v: u32) -> NodePtr {
    a.new_small_number(v).unwrap()
}
/// (q . x)
pub fn q(a: &mut Allocator, x: NodePtr) -> NodePtr {
    let one = a.one();
    a.new_pair(one, x).unwrap()
}
/// (op arg...) - `o` is the operator atom, allocated by the caller BEFORE any atom of symbolic length
/// (a symbolic-length atom makes ghost_heap symbolic, so every later fallible atom allocation returns
/// an `ite(ok, node, junk)` term and the interpreter's dispatch on it forks)
pub fn call(a: &mut Allocator, o: NodePtr, args: &[NodePtr]) -> NodePtr {
    let l = lst(a, args);
    a.new_pair(o, l).unwrap()
}


/// The interpreter loop under test is the real `run_program`; its `Dialect` parameter is a thin stand-in
/// for `ChiaDialect` that delegates everything (keywords, flags, softfork extensions, GC candidates,
/// strict mode) to a real `ChiaDialect` and dispatches only the byte/structure operators, with the same
/// opcode numbers, to the real operator functions; every other opcode goes down the unknown-operator
/// path exactly as in `ChiaDialect::op`. (`ChiaDialect::op` itself links BLS/secp/keccak: a single
/// obligation then spends 4 minutes in goto-instrument before CBMC starts - measured.)
pub struct MiniDialect {
    pub inner: ChiaDialect,
}
impl MiniDialect {
    pub fn new(flags: ClvmFlags) -> Self { MiniDialect { inner: ChiaDialect::new(flags) } }
}
impl clvmr::dialect::Dialect for MiniDialect {
    fn quote_kw(&self) -> u32 { self.inner.quote_kw() }
    fn apply_kw(&self) -> u32 { self.inner.apply_kw() }
    fn softfork_kw(&self) -> u32 { self.inner.softfork_kw() }
    fn softfork_extension(&self, ext: u32) -> clvmr::dialect::OperatorSet { self.inner.softfork_extension(ext) }
    fn flags(&self) -> ClvmFlags { self.inner.flags() }
    fn gc_candidate(&self, a: &Allocator, op: NodePtr) -> bool { self.inner.gc_candidate(a, op) }
    fn allow_unknown_ops(&self) -> bool { self.inner.allow_unknown_ops() }
    fn op(&self, a: &mut Allocator, o: NodePtr, args: NodePtr, max_cost: Cost, _ext: clvmr::dialect::OperatorSet) -> Response {
        let flags = self.inner.flags();
        let f: OpFn = match (a.atom_len(o), a.small_number(o)) {
            (1, Some(3)) => clvmr::core_ops::op_if,
            (1, Some(4)) => clvmr::core_ops::op_cons,
            (1, Some(5)) => clvmr::core_ops::op_first,
            (1, Some(6)) => clvmr::core_ops::op_rest,
            (1, Some(7)) => clvmr::core_ops::op_listp,
            (1, Some(8)) => clvmr::core_ops::op_raise,
            (1, Some(9)) => clvmr::core_ops::op_eq,
            (1, Some(10)) => clvmr::more_ops::op_gr_bytes,
            (1, Some(12)) => clvmr::more_ops::op_substr,
            (1, Some(13)) => clvmr::more_ops::op_strlen,
            (1, Some(14)) => clvmr::more_ops::op_concat,
            (1, Some(32)) => clvmr::more_ops::op_not,
            (1, Some(33)) => clvmr::more_ops::op_any,
            (1, Some(34)) => clvmr::more_ops::op_all,
            _ => {
                return if flags.contains(ClvmFlags::NO_UNKNOWN_OPS) {
                    Err(EvalErr::Unimplemented(o))
                } else {
                    clvmr::more_ops::op_unknown(a, o, args, max_cost, flags)
                };
            }
        };
        f(a, args, max_cost, flags)
    }
}

#[derive(Clone, Copy)]
pub struct Counts { pub atoms: usize, pub pairs: usize, pub heap: usize }
pub fn counts(a: &Allocator) -> Counts { Counts { atoms: a.atom_count(), pairs: a.pair_count(), heap: a.heap_size() } }

/// run with a symbolic budget and check the budget clause of C02 against the known exact cost `c`:
/// success iff budget == 0 or budget >= c, with cost c; otherwise CostExceeded
pub fn check_budget_exact(r: &Response, b: Cost, c: Cost) -> Option<NodePtr> {
    match r {
        Ok(Reduction(cost, v)) => {
            assert!(*cost == c, "C02/run-cost-is-the-sum-of-its-steps");
            assert!(b == 0 || b >= c, "C02/run-succeeds-only-within-budget");
            Some(*v)
        }
        Err(e) => {
            assert!(matches!(e, EvalErr::CostExceeded), "C02/smaller-budget-fails-only-with-cost-exceeded");
            assert!(b != 0 && b < c, "C02/budget-at-least-cost-must-succeed");
            None
        }
    }
}

// (c (q . X) (q . Y)) -> (X . Y), cost 1 + 20 + 20 + 50
proof! {
    #[kani::unwind(18)]
    fn rp_cons_quotes() {
        let mut e = Env::new();
        let o = num(&mut e.a, 4);
        let x = e.arg(A::View(2));
        let y = e.arg(A::View(3));
        let qx = q(&mut e.a, x);
        let qy = q(&mut e.a, y);
        let prg = call(&mut e.a, o, &[qx, qy]);
        let env = e.a.nil();
        let b: Cost = kani::any();
        let d = MiniDialect::new(any_flags(ClvmFlags::NEW_COST_MODEL | ClvmFlags::NO_UNKNOWN_OPS | ClvmFlags::CANONICAL_INTS | ClvmFlags::ENABLE_GC));
        let c0 = counts(&e.a);
        let r = run_program(&mut e.a, &d, prg, env, b);
        if let Some(v) = check_budget_exact(&r, b, 91) {
            match e.a.sexp(v) { SExp::Pair(l, rr) => assert!(l == x && rr == y, "C01/cons-of-quotes"), _ => assert!(false, "C01/cons-of-quotes") }
            let c1 = counts(&e.a);
            assert!(c1.atoms == c0.atoms + 1 && c1.pairs == c0.pairs + 3 && c1.heap == c0.heap, "C03/run-allocations-depend-only-on-the-program");
        }
        kani::cover!(r.is_ok() && b != 0, "succeeds within a finite budget");
        kani::cover!(r.is_err(), "budget too small");
        std::mem::forget(r); std::mem::forget(e);
    }
}


fn run_flags() -> ClvmFlags {
    any_flags(ClvmFlags::NEW_COST_MODEL | ClvmFlags::NO_UNKNOWN_OPS | ClvmFlags::CANONICAL_INTS | ClvmFlags::ENABLE_GC | ClvmFlags::LIMIT_SOFTFORK)
}

// (i (q . C) (q . X) (q . Y)) with C nil or a non-empty atom
fn if_case(cond_nil: bool) {
    let mut e = Env::new();
    let o = num(&mut e.a, 3);
    let c = if cond_nil { e.a.nil() } else { e.arg(A::View(1)) };
    let x = e.arg(A::View(2));
    let y = e.arg(A::View(2));
    let qc = q(&mut e.a, c);
    let qx = q(&mut e.a, x);
    let qy = q(&mut e.a, y);
    let prg = call(&mut e.a, o, &[qc, qx, qy]);
    let env = e.a.nil();
    let b: Cost = kani::any();
    let flags = run_flags();
    let d = MiniDialect::new(flags);
    let r = run_program(&mut e.a, &d, prg, env, b);
    let cost = 1 + 60 + if flags.contains(ClvmFlags::NEW_COST_MODEL) { 330 } else { 33 };
    if let Some(v) = check_budget_exact(&r, b, cost) {
        assert!(v == if cond_nil { y } else { x }, "C01/if-selects-by-nil-ness");
    }
    kani::cover!(r.is_ok(), "run succeeds");
    std::mem::forget(r); std::mem::forget(e);
}
proof! { #[kani::unwind(18)] fn rp_if_true() { if_case(false); } }
proof! { #[kani::unwind(18)] fn rp_if_nil() { if_case(true); } }

// (c 2 5) on env (X Y): environment paths through the inline-integer fast path
proof! {
    #[kani::unwind(18)]
    fn rp_paths_cons() {
        let mut e = Env::new();
        let o = num(&mut e.a, 4);
        let p2 = num(&mut e.a, 2);
        let p5 = num(&mut e.a, 5);
        let x = e.arg(A::View(2));
        let y = e.arg(A::View(1));
        let env = lst(&mut e.a, &[x, y]);
        let prg = call(&mut e.a, o, &[p2, p5]);
        let b: Cost = kani::any();
        let d = MiniDialect::new(run_flags());
        let r = run_program(&mut e.a, &d, prg, env, b);
        if let Some(v) = check_budget_exact(&r, b, 1 + 48 + 52 + 50) {
            match e.a.sexp(v) { SExp::Pair(l, rr) => assert!(l == x && rr == y, "C01/paths-select-environment-items"), _ => assert!(false, "C01/paths-select-environment-items") }
        }
        kani::cover!(r.is_ok(), "run succeeds");
        std::mem::forget(r); std::mem::forget(e);
    }
}

// (a (q . (f 1)) (q . (X . Y))) -> X
proof! {
    #[kani::unwind(18)]
    fn rp_apply_first() {
        let mut e = Env::new();
        let oa = num(&mut e.a, 2);
        let of = num(&mut e.a, 5);
        let one = e.a.one();
        let x = e.arg(A::View(2));
        let y = e.arg(A::View(1));
        let inner = call(&mut e.a, of, &[one]);
        let envp = cons(&mut e.a, x, y);
        let qi = q(&mut e.a, inner);
        let qe = q(&mut e.a, envp);
        let prg = call(&mut e.a, oa, &[qi, qe]);
        let env = e.a.nil();
        let b: Cost = kani::any();
        let d = MiniDialect::new(run_flags());
        let r = run_program(&mut e.a, &d, prg, env, b);
        if let Some(v) = check_budget_exact(&r, b, 1 + 20 + 20 + 90 + 1 + 44 + 30) {
            assert!(v == x, "C01/apply-evaluates-in-the-given-environment");
        }
        kani::cover!(r.is_ok(), "run succeeds");
        std::mem::forget(r); std::mem::forget(e);
    }
}

// (15 (q . X)): an unassigned one-byte opcode - nil at cost 1 in consensus mode, an error in strict mode (C07, C09)
proof! {
    #[kani::unwind(18)]
    fn rp_unknown_opcode() {
        let mut e = Env::new();
        let o = num(&mut e.a, 15);
        let x = e.arg(A::View(2));
        let qx = q(&mut e.a, x);
        let prg = call(&mut e.a, o, &[qx]);
        let env = e.a.nil();
        let b: Cost = kani::any();
        let flags = run_flags();
        let d = MiniDialect::new(flags);
        let r = run_program(&mut e.a, &d, prg, env, b);
        if flags.contains(ClvmFlags::NO_UNKNOWN_OPS) {
            match &r {
                Ok(_) => assert!(false, "C09/strict-mode-rejects-unknown-operators"),
                Err(err) => assert!(matches!(err, EvalErr::Unimplemented(_)) || (matches!(err, EvalErr::CostExceeded) && b != 0 && b < 21), "C07/strict-mode-error-kind"),
            }
        } else if let Some(v) = check_budget_exact(&r, b, 1 + 20 + 1) {
            assert!(v == e.a.nil(), "C09/unknown-operator-yields-nil");
        }
        kani::cover!(r.is_ok(), "accepted in consensus mode");
        kani::cover!(matches!(r, Err(EvalErr::Unimplemented(_))), "rejected in strict mode");
        std::mem::forget(r); std::mem::forget(e);
    }
}

// (= (strlen (q . X)) (q . Y)): two operator applications, both GC candidates
proof! {
    #[kani::unwind(18)]
    fn rp_eq_strlen() {
        let mut e = Env::new();
        let oeq = num(&mut e.a, 9);
        let osl = num(&mut e.a, 13);
        let x = e.arg(A::View(3));
        let y = e.arg(A::View(1));
        let qx = q(&mut e.a, x);
        let qy = q(&mut e.a, y);
        let sl = call(&mut e.a, osl, &[qx]);
        let prg = call(&mut e.a, oeq, &[sl, qy]);
        let env = e.a.nil();
        let b: Cost = kani::any();
        let flags = run_flags();
        let d = MiniDialect::new(flags);
        let c0 = counts(&e.a);
        let r = run_program(&mut e.a, &d, prg, env, b);
        if let Some(v) = check_budget_exact(&r, b, 1 + (1 + 20 + 173 + 3 + 10) + 20 + 117 + 2) {
            let expect_one = e.bytes[3] == 3;
            assert!(e.a.atom_len(v) == (if expect_one { 1 } else { 0 }), "C01/eq-of-strlen");
            // allocator counts after the run do not depend on ENABLE_GC (C04) or on anything but the program
            let c1 = counts(&e.a);
            assert!(c1.atoms == c0.atoms + 2 && c1.pairs == c0.pairs + 3 && c1.heap == c0.heap + 1, "C04/counts-independent-of-gc-flag");
        }
        kani::cover!(r.is_ok() && flags.contains(ClvmFlags::ENABLE_GC), "run succeeds with GC enabled");
        kani::cover!(r.is_ok() && !flags.contains(ClvmFlags::ENABLE_GC), "run succeeds with GC disabled");
        std::mem::forget(r); std::mem::forget(e);
    }
}

// (softfork (q . COST) (q . EXT) (q . (q . X)) (q . ())) with COST any 2-byte atom, EXT concrete:
// guard semantics (C31), declared-cost checks (C02), strict-mode differences (C07), soft-fork safety of
// unknown extensions (C08)
fn softfork_case(ext: u32) {
    softfork_case_c(ext, None, false)
}

/// `declared`: Some(v) = the declared cost is the concrete inline integer v; None = any 2-byte atom
/// the cost model is concrete per harness: `softfork_extension` depends on it, and a symbolic operator set makes
/// `parse_softfork_arguments` return a symbolic (program, environment) pair, on which the interpreter forks
fn softfork_case_c(ext: u32, declared: Option<u32>, new_model_c: bool) {
    let mut e = Env::new();
    let osf = num(&mut e.a, 36);
    let extn = num(&mut e.a, ext);
    let one = e.a.one();
    let cost_atom = match declared { Some(v) => num(&mut e.a, v), None => e.arg(A::View(2)) };
    let x = e.arg(A::View(3));
    let inner = cons(&mut e.a, one, x); // (q . X)
    let nil = e.a.nil();
    let qc = q(&mut e.a, cost_atom);
    let qe = q(&mut e.a, extn);
    let qp = q(&mut e.a, inner);
    let qn = q(&mut e.a, nil);
    let prg = call(&mut e.a, osf, &[qc, qe, qp, qn]);
    let b: Cost = kani::any();
    let flags = any_flags(ClvmFlags::NO_UNKNOWN_OPS | ClvmFlags::CANONICAL_INTS | ClvmFlags::ENABLE_GC | ClvmFlags::LIMIT_SOFTFORK)
        | if new_model_c { ClvmFlags::NEW_COST_MODEL } else { ClvmFlags::empty() };
    let d = MiniDialect::new(flags);
    let c0 = counts(&e.a);
    let r = run_program(&mut e.a, &d, prg, nil, b);
    let c1 = counts(&e.a);

    // ---- reference
    let new_model = flags.contains(ClvmFlags::NEW_COST_MODEL);
    let strict = flags.contains(ClvmFlags::NO_UNKNOWN_OPS);
    let budget: u64 = if b == 0 { u64::MAX } else { b };
    let (b0, b1) = match declared { Some(v) => ((v >> 8) as u8 & 0x7f, v as u8), None => (e.bytes[0], e.bytes[1]) };
    let pre: u64 = 1 + 4 * 20; // operator + four quoted arguments
    if budget < pre {
        assert!(matches!(r, Err(EvalErr::CostExceeded)), "C02/smaller-budget-fails-only-with-cost-exceeded");
    } else if b0 & 0x80 != 0 || (flags.contains(ClvmFlags::CANONICAL_INTS) && b0 == 0 && b1 & 0x80 == 0) {
        assert!(matches!(r, Err(EvalErr::InvalidOpArg(_, _))), "C31/declared-cost-must-be-a-valid-unsigned-integer");
        kani::cover!(b0 == 0, "non-canonical declared cost rejected in strict integer mode");
    } else {
        let v: u64 = ((b0 as u64) << 8) | b1 as u64;
        if v > budget - pre || v == 0 {
            assert!(matches!(r, Err(EvalErr::CostExceeded)), "C02/declared-cost-over-remaining-budget-or-zero-fails-cost-exceeded");
        } else if ext >= 2 {
            // unknown extension: accepted as a no-op at the declared cost in consensus mode, rejected in strict mode
            if strict {
                assert!(matches!(r, Err(EvalErr::UnknownSoftforkExtension)), "C07/unknown-extension-rejected-in-strict-mode");
            } else {
                match &r {
                    Ok(Reduction(c, res)) => {
                        assert!(*c == pre + v && *res == nil, "C08/unknown-extension-costs-declared-cost-and-yields-nil");
                        assert!(c1.atoms == c0.atoms + 1 && c1.pairs == c0.pairs + 4 && c1.heap == c0.heap, "C31/guard-leaves-allocator-counts");
                    }
                    Err(_) => assert!(false, "C08/unknown-extension-must-be-accepted-in-consensus-mode"),
                }
                kani::cover!(r.is_ok(), "unknown extension accepted");
            }
        } else if new_model {
            // grandfathered extension: declared cost ignored, guard costs 500 + inner quote 20
            let total = pre + 500 + 20;
            if total > budget {
                assert!(matches!(r, Err(EvalErr::CostExceeded)), "C02/smaller-budget-fails-only-with-cost-exceeded");
            } else {
                match &r {
                    Ok(Reduction(c, res)) => {
                        assert!(*c == total && *res == nil, "C31/grandfathered-guard-yields-nil-at-true-cost");
                        assert!(c1.atoms == c0.atoms + 1 && c1.pairs == c0.pairs + 4 && c1.heap == c0.heap, "C31/guard-leaves-allocator-counts");
                    }
                    Err(_) => assert!(false, "C31/grandfathered-guard-must-complete"),
                }
                kani::cover!(r.is_ok() && v != 520, "grandfathered guard ignores the declared cost");
            }
        } else {
            let inner_cost: u64 = 140 + 20;
            if v < inner_cost {
                assert!(matches!(r, Err(EvalErr::CostExceeded)), "C31/guard-exceeding-declared-cost-fails-cost-exceeded");
            } else if v > inner_cost {
                assert!(matches!(r, Err(EvalErr::SoftforkCostMismatch)), "C31/guard-must-consume-exactly-its-declared-cost");
            } else {
                match &r {
                    Ok(Reduction(c, res)) => {
                        assert!(*c == pre + inner_cost && *res == nil, "C31/completed-guard-yields-nil-at-declared-cost");
                        assert!(c1.atoms == c0.atoms + 1 && c1.pairs == c0.pairs + 4 && c1.heap == c0.heap, "C31/guard-leaves-allocator-counts");
                    }
                    Err(_) => assert!(false, "C31/guard-with-exact-declared-cost-must-complete"),
                }
                kani::cover!(r.is_ok(), "guard completes with the exact declared cost");
            }
        }
    }
    std::mem::forget(r); std::mem::forget(e);
}
proof! { #[kani::unwind(18)] fn rp_softfork_ext0() { softfork_case(0); } }
proof! { #[kani::unwind(18)] fn rp_softfork_ext0_c160() { softfork_case_c(0, Some(160), false); } }
proof! { #[kani::unwind(18)] fn rp_softfork_ext0_c159() { softfork_case_c(0, Some(159), false); } }
proof! { #[kani::unwind(18)] fn rp_softfork_ext0_c161() { softfork_case_c(0, Some(161), false); } }
proof! { #[kani::unwind(18)] fn rp_softfork_ext1_c160() { softfork_case_c(1, Some(160), false); } }
proof! { #[kani::unwind(18)] fn rp_softfork_ext2_c300() { softfork_case_c(2, Some(300), false); } }
proof! { #[kani::unwind(18)] fn rp_softfork_ext0_c160_new() { softfork_case_c(0, Some(160), true); } }
proof! { #[kani::unwind(18)] fn rp_softfork_ext0_sym_new() { softfork_case_c(0, None, true); } }
proof! { #[kani::unwind(18)] fn rp_softfork_ext2_sym_new() { softfork_case_c(2, None, true); } }
proof! { #[kani::unwind(18)] fn rp_softfork_ext1() { softfork_case(1); } }
proof! { #[kani::unwind(18)] fn rp_softfork_ext2() { softfork_case(2); } }

proof! {
    #[kani::unwind(18)]
    fn rp_probe_cons() {
        let mut e = Env::new();
        let o = num(&mut e.a, 4);
        let x = e.arg(A::View(2));
        let y = e.arg(A::Small);
        let qx = q(&mut e.a, x);
        let qy = q(&mut e.a, y);
        let prg = call(&mut e.a, o, &[qx, qy]);
        let env = e.a.nil();
        let b: Cost = kani::any();
        let d = ChiaDialect::new(ClvmFlags::empty());
        let r = run_program(&mut e.a, &d, prg, env, b);
        match &r {
            Ok(Reduction(c, v)) => {
                assert!(*c == 91);
                assert!(b == 0 || b >= 91);
                match e.a.sexp(*v) { SExp::Pair(l, rr) => assert!(l == x && rr == y), _ => assert!(false) }
            }
            Err(err) => { assert!(matches!(err, EvalErr::CostExceeded)); assert!(b != 0 && b < 91); }
        }
        kani::cover!(r.is_ok());
        kani::cover!(r.is_err());
        std::mem::forget(r); std::mem::forget(e);
    }
}

fn spin(n: u32) { let mut i = 0u32; while i < n { i += 1; } }
fn conc_prog(sym_small: bool, level: u8) {
    let mut e = Env::new();
    let o = num(&mut e.a, 4);
    let x = e.arg(A::View(2));
    let y = if sym_small { e.arg(A::Small) } else { e.arg(A::SmallC(77)) };
    let qx = q(&mut e.a, x);
    let qy = q(&mut e.a, y);
    let prg = call(&mut e.a, o, &[qx, qy]);
    if let SExp::Pair(o, l) = e.a.sexp(prg) {
        spin(if e.a.small_number(o) == Some(4) { 1 } else { 50 });
        if level >= 1 {
            if let SExp::Pair(f, r) = e.a.sexp(l) {
                spin(if f == qx { 1 } else { 50 });
                if let SExp::Pair(one, xx) = e.a.sexp(f) {
                    spin(if e.a.small_number(one) == Some(1) && xx == x { 1 } else { 50 });
                }
            }
        }
    }
    std::mem::forget(e);
}
proof! { #[kani::unwind(18)] fn rp_conc_sym0() { conc_prog(true, 0); } }
proof! { #[kani::unwind(18)] fn rp_conc_sym1() { conc_prog(true, 1); } }
proof! { #[kani::unwind(18)] fn rp_conc_conc1() { conc_prog(false, 1); } }

#[derive(Clone, Copy)]
struct P2 { a: u32, b: u32 }
kernel_proof! { #[kani::unwind(6)] fn rp_poison_u32() {
    let mut v: Vec<u32> = Vec::with_capacity(8);
    v.push(5);
    let s: u32 = kani::any();
    v.push(s);
    spin(if v[0] == 5 { 1 } else { 50 });
    std::mem::forget(v);
} }
kernel_proof! { #[kani::unwind(6)] fn rp_poison_struct() {
    let mut v: Vec<P2> = Vec::with_capacity(8);
    v.push(P2 { a: 5, b: 6 });
    let s: u32 = kani::any();
    v.push(P2 { a: 7, b: s });
    spin(if v[0].a == 5 && v[0].b == 6 && v[1].a == 7 { 1 } else { 50 });
    std::mem::forget(v);
} }

fn poison_alloc(variant: u8) {
    let mut a = Allocator::new();
    let s: u32 = kani::any();
    kani::assume(s < (1 << 26));
    let y = match variant {
        0 => a.new_small_number(s).unwrap(),
        1 => { let r = a.new_small_number(s); kani::assume(r.is_ok()); r.unwrap() }
        _ => a.new_small_number(s & 0x7f).unwrap(),
    };
    let one = a.one();
    let p1 = a.new_pair(one, one).unwrap();
    let p2 = a.new_pair(one, y).unwrap();
    if let SExp::Pair(f, r) = a.sexp(p1) { spin(if f == one && r == one { 1 } else { 50 }); }
    if let SExp::Pair(f, _r) = a.sexp(p2) { spin(if f == one { 1 } else { 50 }); }
    std::mem::forget(a);
}
proof! { #[kani::unwind(6)] fn rp_poison_alloc0() { poison_alloc(0); } }
proof! { #[kani::unwind(6)] fn rp_poison_alloc1() { poison_alloc(1); } }
proof! { #[kani::unwind(6)] fn rp_poison_alloc2() { poison_alloc(2); } }

proof! { #[kani::unwind(6)] fn rp_poison_alloc3() {
    let mut a = Allocator::new();
    let s: u32 = kani::any();
    kani::assume(s < (1 << 26));
    let y = a.new_small_number(s).unwrap();
    let one = a.one();
    let p1 = a.new_pair(one, y).unwrap();
    let p2 = a.new_pair(one, p1).unwrap();
    let p3 = a.new_pair(p2, one).unwrap();
    if let SExp::Pair(f, r) = a.sexp(p3) { spin(if f == p2 && r == one { 1 } else { 50 }); }
    if let SExp::Pair(f, r) = a.sexp(p2) { spin(if f == one && r == p1 { 1 } else { 50 }); }
    std::mem::forget(a);
} }
