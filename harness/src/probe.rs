//! cost probes (not part of any claim)
use crate::util::*;
use clvmr::allocator::{Allocator, NodePtr};
use clvmr::chia_dialect::ClvmFlags;

proof! {
    #[kani::unwind(8)]
    fn probe_p1_new() {
        let a = Allocator::new();
        assert!(a.atom_count() == 2);
        std::mem::forget(a);
    }
}
proof! {
    #[kani::unwind(8)]
    fn probe_p2_atom6() {
        let mut a = Allocator::new();
        let hb: [u8; 6] = kani::any();
        let h = a.new_atom(&hb).unwrap();
        assert!(a.atom_len(h) == 6);
        std::mem::forget(a);
    }
}
proof! {
    #[kani::unwind(8)]
    fn probe_p3_atom6_read() {
        let mut a = Allocator::new();
        let hb: [u8; 6] = kani::any();
        let h = a.new_atom(&hb).unwrap();
        let at = a.atom(h);
        let s = at.as_ref();
        let mut i = 0;
        while i < 6 { assert!(s[i] == hb[i]); i += 1; }
        std::mem::forget(a);
    }
}
proof! {
    #[kani::unwind(8)]
    fn probe_p4_view() {
        let mut a = Allocator::new();
        let hb: [u8; 6] = kani::any();
        let h = a.new_atom(&hb).unwrap();
        let vs: u32 = kani::any();
        let ve: u32 = kani::any();
        kani::assume(vs <= ve && ve <= 6);
        let v = a.new_substr(h, vs, ve).unwrap();
        assert!(a.atom_len(v) == (ve - vs) as usize);
        std::mem::forget(a);
    }
}
proof! {
    #[kani::unwind(8)]
    fn probe_p5_limited_sym() {
        let limit: usize = kani::any();
        kani::assume(limit <= u32::MAX as usize && limit >= 7);
        let mut a = Allocator::new_limited(limit);
        let hb: [u8; 6] = kani::any();
        let h = a.new_atom(&hb).unwrap();
        assert!(a.atom_len(h) == 6);
        std::mem::forget(a);
    }
}
proof! {
    #[kani::unwind(8)]
    fn probe_p6_pair() {
        let mut a = Allocator::new();
        let hb: [u8; 6] = kani::any();
        let h = a.new_atom(&hb).unwrap();
        let p = a.new_pair(h, h).unwrap();
        let q = a.new_pair(p, h).unwrap();
        assert!(a.pair_count() == 2);
        std::mem::forget(a);
    }
}
proof! {
    #[kani::unwind(8)]
    fn probe_p7_ghost() {
        let mut a = Allocator::new();
        let ga: usize = kani::any();
        kani::assume(a.add_ghost_atom(ga).is_ok());
        let hb: [u8; 6] = kani::any();
        let h = a.new_atom(&hb);
        kani::cover!(h.is_err());
        std::mem::forget(a);
    }
}

proof! {
    #[kani::unwind(8)]
    fn probe_p8_pre_inv() {
        let p = crate::c12::pre();
        crate::c12::inv(&p);
        std::mem::forget(p);
    }
}
proof! {
    #[kani::unwind(8)]
    fn probe_p9_pre_contents() {
        let p = crate::c12::pre();
        crate::c12::contents_unchanged(&p);
        std::mem::forget(p);
    }
}
proof! {
    #[kani::unwind(8)]
    fn probe_p10_pre_only() {
        let p = crate::c12::pre();
        assert!(p.a.pair_count() >= 1);
        std::mem::forget(p);
    }
}

use crate::c12::{Pre, pre_with, inv, contents_unchanged};
proof! {
    #[kani::unwind(8)]
    fn probe_p11_pair_concrete_view() {
        let mut p = pre_with(Some((1,4)), None, true);
        let r = p.a.new_pair(p.heap, p.small);
        kani::cover!(r.is_err());
        inv(&p);
        contents_unchanged(&p);
        std::mem::forget(p);
    }
}
proof! {
    #[kani::unwind(8)]
    fn probe_p12_pair_no_contents() {
        let mut p = pre_with(None, None, true);
        let r = p.a.new_pair(p.heap, p.small);
        kani::cover!(r.is_err());
        inv(&p);
        std::mem::forget(p);
    }
}
proof! {
    #[kani::unwind(8)]
    fn probe_p13_pair_concrete_limit() {
        let mut p = pre_with(None, Some(1000), true);
        let r = p.a.new_pair(p.heap, p.small);
        kani::cover!(r.is_err());
        inv(&p);
        contents_unchanged(&p);
        std::mem::forget(p);
    }
}
proof! {
    #[kani::unwind(8)]
    fn probe_p14_pair_no_ghost() {
        let mut p = pre_with(None, None, false);
        let r = p.a.new_pair(p.heap, p.small);
        inv(&p);
        contents_unchanged(&p);
        std::mem::forget(p);
    }
}

// ---- micro-variants to locate the cost of new_atom
fn na_variant(sym_len: bool, ghosts: bool, check_bytes: bool, check_pre: bool) {
    let mut p = pre_with(Some((1, 4)), Some(1000), ghosts);
    let b: [u8; 5] = kani::any();
    let len: usize = if sym_len { kani::any() } else { 5 };
    kani::assume(len <= 5);
    let r = match len {
        0 => p.a.new_atom(&[]),
        1 => p.a.new_atom(&b[..1]),
        2 => p.a.new_atom(&b[..2]),
        3 => p.a.new_atom(&b[..3]),
        4 => p.a.new_atom(&b[..4]),
        _ => p.a.new_atom(&b[..5]),
    };
    if let Ok(n) = r {
        assert!(p.a.atom_len(n) == len);
        if check_bytes {
            let at = p.a.atom(n);
            let s = at.as_ref();
            let mut i = 0;
            while i < len {
                assert!(s[i] == b[i]);
                i += 1;
            }
        }
    }
    if check_pre { contents_unchanged(&p); }
    std::mem::forget(p);
}
proof! { #[kani::unwind(8)] fn probe_na_fixed5() { na_variant(false, false, false, false); } }
proof! { #[kani::unwind(8)] fn probe_na_fixed5_bytes() { na_variant(false, false, true, false); } }
proof! { #[kani::unwind(8)] fn probe_na_symlen() { na_variant(true, false, false, false); } }
proof! { #[kani::unwind(8)] fn probe_na_symlen_bytes() { na_variant(true, false, true, false); } }
proof! { #[kani::unwind(8)] fn probe_na_symlen_pre() { na_variant(true, false, false, true); } }
proof! { #[kani::unwind(8)] fn probe_na_symlen_ghosts() { na_variant(true, true, false, false); } }

// ---- micro-variants: new_substr on the heap parent from the symbolic-limit pre-state
fn ss_variant(lim: Option<usize>, ghosts: bool, level: u8) {
    let mut p = pre_with(Some((1, 4)), lim, ghosts);
    let s: u32 = kani::any();
    let e: u32 = kani::any();
    let before = p.a.atom_count();
    let r = p.a.new_substr(p.heap, s, e);
    if level >= 1 {
        match &r {
            Ok(n) => {
                assert!(s <= e && e <= 6);
                if level >= 2 { assert!(p.a.atom_len(*n) == (e - s) as usize); }
                if level >= 3 { assert!(p.a.atom_count() == before + 1); }
            }
            Err(_) => { if level >= 3 { assert!(p.a.atom_count() == before); } }
        }
    }
    if level >= 4 { std::mem::forget(r); }
    std::mem::forget(p);
}
proof! { #[kani::unwind(8)] fn probe_ss_sym_l0() { ss_variant(None, true, 0); } }
proof! { #[kani::unwind(8)] fn probe_ss_sym_l1() { ss_variant(None, true, 1); } }
proof! { #[kani::unwind(8)] fn probe_ss_sym_l3() { ss_variant(None, true, 3); } }
proof! { #[kani::unwind(8)] fn probe_ss_sym_l4() { ss_variant(None, true, 4); } }
proof! { #[kani::unwind(8)] fn probe_ss_conc_l3() { ss_variant(Some(1000), true, 3); } }
proof! { #[kani::unwind(8)] fn probe_ss_sym_noghost_l3() { ss_variant(None, false, 3); } }

proof! {
    #[kani::unwind(8)]
    fn probe_nts_nil() {
        let a = Allocator::new();
        let mut full: FixedBuf<20> = FixedBuf::new();
        let r0 = clvmr::serde::verif_hooks::node_to_stream(&a, a.nil(), &mut full);
        assert!(r0.is_ok());
        assert!(full.len == 1);
        std::mem::forget(a);
    }
}
proof! {
    #[kani::unwind(8)]
    fn probe_nts_pair() {
        let mut a = Allocator::new();
        let t = a.new_pair(a.one(), a.nil()).unwrap();
        let mut full: FixedBuf<20> = FixedBuf::new();
        let r0 = clvmr::serde::verif_hooks::node_to_stream(&a, t, &mut full);
        assert!(r0.is_ok());
        assert!(full.len == 3);
        std::mem::forget(a);
    }
}

kernel_proof! {
    #[kani::unwind(8)]
    fn probe_ioerr_kind() {
        let e: std::io::Error = std::io::ErrorKind::OutOfMemory.into();
        assert!(e.kind() == std::io::ErrorKind::OutOfMemory);
    }
}
kernel_proof! {
    #[kani::unwind(8)]
    fn probe_limited_write_all_fail() {
        use std::io::Write;
        let mut w = clvmr::serde::verif_hooks::LimitedWriter::new(FixedBuf::<8>::new(), 0);
        let r = w.write_all(&[0xff]);
        assert!(r.is_err());
    }
}
kernel_proof! {
    #[kani::unwind(8)]
    fn probe_limited_write_all_ok() {
        use std::io::Write;
        let mut w = clvmr::serde::verif_hooks::LimitedWriter::new(FixedBuf::<8>::new(), 4);
        let r = w.write_all(&[0xff, 1]);
        assert!(r.is_ok());
        let r = w.write_all(&[0xff, 1, 3]);
        assert!(r.is_err());
    }
}

kernel_proof! {
    #[kani::unwind(8)]
    fn probe_vec_grow() {
        let mut v: Vec<NodePtr> = vec![NodePtr::NIL];
        let x = v.pop().unwrap();
        v.push(x);
        v.push(x);
        assert!(v.len() == 2);
        let y = v.pop();
        assert!(y.is_some());
        std::mem::forget(v);
    }
}
kernel_proof! {
    #[kani::unwind(8)]
    fn probe_vec_grow_u64() {
        let mut v: Vec<u64> = vec![1];
        v.push(2);
        v.push(3);
        assert!(v.len() == 3);
        std::mem::forget(v);
    }
}

proof! {
    #[kani::unwind(8)]
    fn probe_nts_one() {
        let a = Allocator::new();
        let mut full: FixedBuf<20> = FixedBuf::new();
        let r0 = clvmr::serde::verif_hooks::node_to_stream(&a, a.one(), &mut full);
        assert!(r0.is_ok());
        assert!(full.len == 1);
        std::mem::forget(a);
    }
}
proof! {
    #[kani::unwind(8)]
    fn probe_nts_pair_nil() {
        let mut a = Allocator::new();
        let t = a.new_pair(a.nil(), a.nil()).unwrap();
        let mut full: FixedBuf<20> = FixedBuf::new();
        let r0 = clvmr::serde::verif_hooks::node_to_stream(&a, t, &mut full);
        assert!(r0.is_ok());
        assert!(full.len == 3);
        std::mem::forget(a);
    }
}
proof! {
    #[kani::unwind(3)]
    fn probe_nts_pair_nil_u3() {
        let mut a = Allocator::new();
        let t = a.new_pair(a.nil(), a.nil()).unwrap();
        let mut full: FixedBuf<20> = FixedBuf::new();
        let r0 = clvmr::serde::verif_hooks::node_to_stream(&a, t, &mut full);
        assert!(r0.is_ok());
        assert!(full.len == 3);
        std::mem::forget(a);
    }
}

kernel_proof! {
    #[kani::unwind(8)]
    fn probe_vec_grow2() {
        let mut v: Vec<u32> = vec![7];
        let x = v.pop().unwrap();
        v.push(11);
        v.push(13);
        let c = v.pop().unwrap();
        let b = v.pop().unwrap();
        // if b is not a constant for symex, this loop cannot be unwound concretely
        let mut i = 0u32;
        while i < b { i += 1; }
        assert!(i == 11 && c == 13 && x == 7);
        std::mem::forget(v);
    }
}

proof! {
    #[kani::unwind(8)]
    fn probe_vec_grow3() {
        let mut a = Allocator::new();
        let t = a.new_pair(a.nil(), a.nil()).unwrap();
        let mut values: Vec<NodePtr> = vec![t];
        let mut n = 0;
        while let Some(v) = values.pop() {
            n += 1;
            match a.sexp(v) {
                clvmr::allocator::SExp::Pair(l, r) => { values.push(r); values.push(l); }
                clvmr::allocator::SExp::Atom => {}
            }
        }
        assert!(n == 3);
        std::mem::forget(a);
    }
}

fn spin(n: u32) { let mut i = 0u32; while i < n { i += 1; } }
proof! {
    #[kani::unwind(6)]
    fn probe_conc_pair_read() {
        let mut a = Allocator::new();
        let three = a.new_small_number(3).unwrap();
        let t = a.new_pair(a.one(), three).unwrap();
        match a.sexp(t) {
            clvmr::allocator::SExp::Pair(l, r) => { spin(a.small_number(r).unwrap()); }
            clvmr::allocator::SExp::Atom => {}
        }
        std::mem::forget(a);
    }
}
proof! {
    #[kani::unwind(6)]
    fn probe_conc_pair_vec() {
        let mut a = Allocator::new();
        let three = a.new_small_number(3).unwrap();
        let t = a.new_pair(a.one(), three).unwrap();
        let mut values: Vec<NodePtr> = vec![t];
        let v = values.pop().unwrap();
        if let clvmr::allocator::SExp::Pair(l, r) = a.sexp(v) { values.push(r); values.push(l); }
        let l = values.pop().unwrap();
        let r = values.pop().unwrap();
        spin(a.small_number(r).unwrap());
        spin(values.len() as u32);
        std::mem::forget(a);
    }
}

kernel_proof! {
    #[kani::unwind(6)]
    fn probe_vec_loop_plain() {
        let mut values: Vec<u32> = vec![5];
        let mut n = 0;
        while let Some(v) = values.pop() {
            n += 1;
            if v > 3 { values.push(v - 3); values.push(v - 4); }
        }
        assert!(n == 3);
        std::mem::forget(values);
    }
}
kernel_proof! {
    #[kani::unwind(6)]
    fn probe_vec_loop_plain_drop() {
        let mut values: Vec<u32> = vec![5];
        let mut n = 0;
        while let Some(v) = values.pop() {
            n += 1;
            if v > 3 { values.push(v - 3); values.push(v - 4); }
        }
        assert!(n == 3);
    }
}

fn vg(loop_kind: u8, use_sexp: bool) {
    let mut a = Allocator::new();
    let three = a.new_small_number(3).unwrap();
    let t = a.new_pair(a.one(), three).unwrap();
    let mut values: Vec<NodePtr> = vec![t];
    let mut n = 0;
    if loop_kind == 0 {
        while let Some(v) = values.pop() {
            n += 1;
            let is_pair = if use_sexp { matches!(a.sexp(v), clvmr::allocator::SExp::Pair(_, _)) } else { v.is_pair() };
            if is_pair {
                if let clvmr::allocator::SExp::Pair(l, r) = a.sexp(v) { values.push(r); values.push(l); }
            }
        }
    } else {
        let mut k = 0;
        while k < 4 {
            k += 1;
            let Some(v) = values.pop() else { break; };
            n += 1;
            if v.is_pair() {
                if let clvmr::allocator::SExp::Pair(l, r) = a.sexp(v) { values.push(r); values.push(l); }
            }
        }
    }
    assert!(n == 3);
    std::mem::forget(a);
}
proof! { #[kani::unwind(6)] fn probe_vg_while_sexp() { vg(0, true); } }
proof! { #[kani::unwind(6)] fn probe_vg_while_ispair() { vg(0, false); } }
proof! { #[kani::unwind(6)] fn probe_vg_counted() { vg(1, false); } }

proof! {
    #[kani::unwind(6)]
    fn probe_vg_diag() {
        let mut a = Allocator::new();
        let three = a.new_small_number(3).unwrap();
        let t = a.new_pair(a.one(), three).unwrap();
        let mut values: Vec<NodePtr> = vec![t];
        let mut k = 0;
        while k < 3 {
            k += 1;
            let Some(v) = values.pop() else { break; };
            spin(values.len() as u32);          // A: len after pop
            spin(if v.is_pair() == (k == 1) { 1 } else { 100 }); // B: is_pair concrete?
            if v.is_pair() {
                if let clvmr::allocator::SExp::Pair(l, r) = a.sexp(v) { values.push(r); values.push(l); }
            }
            spin(values.len() as u32);          // C: len after pushes
        }
        std::mem::forget(a);
    }
}

kernel_proof! {
    #[kani::unwind(6)]
    fn probe_vec_fresh_after_grow() {
        let mut values: Vec<u32> = vec![9];
        values.push(100);      // grows 1 -> 4
        let l = values.pop().unwrap();
        spin(if l == 100 { 1 } else { 50 });
        std::mem::forget(values);
    }
}
kernel_proof! {
    #[kani::unwind(6)]
    fn probe_vec_fresh_after_grow_loop() {
        let mut values: Vec<u32> = vec![9];
        let mut k = 0;
        while k < 2 {
            k += 1;
            let v = values.pop().unwrap();
            spin(if (v == 9) == (k == 1) { 1 } else { 50 });
            if k == 1 { values.push(7); values.push(100); }
        }
        std::mem::forget(values);
    }
}

fn vgd(variant: u8) {
    let mut a = Allocator::new();
    let three = a.new_small_number(3).unwrap();
    let one = a.one();
    let t = a.new_pair(one, three).unwrap();
    let mut values: Vec<NodePtr> = vec![t];
    let mut k = 0;
    while k < 3 {
        k += 1;
        let Some(v) = values.pop() else { break; };
        spin(if v.is_pair() == (k == 1) { 1 } else { 50 });
        if k == 1 {
            match variant {
                0 => { values.push(three); values.push(one); }
                1 => { if let clvmr::allocator::SExp::Pair(l, r) = a.sexp(t) { values.push(r); values.push(l); } }
                2 => { if v.is_pair() { values.push(three); values.push(one); } }
                3 => { if let clvmr::allocator::SExp::Pair(l, r) = a.sexp(v) { values.push(r); values.push(l); } }
                _ => { if let clvmr::allocator::SExp::Pair(l, r) = a.sexp(v) { spin(if l == one && r == three {1} else {50}); values.push(three); values.push(one); } }
            }
        }
    }
    std::mem::forget(a);
}
proof! { #[kani::unwind(6)] fn probe_vgd_const() { vgd(0); } }
proof! { #[kani::unwind(6)] fn probe_vgd_sexp_t() { vgd(1); } }
proof! { #[kani::unwind(6)] fn probe_vgd_ispair() { vgd(2); } }
kernel_proof! { #[kani::unwind(6)] fn probe_vgd_nostub_ispair() {
    let t = NodePtr::NIL;
    let mut values: Vec<NodePtr> = vec![t];
    let mut k = 0;
    while k < 3 {
        k += 1;
        let Some(v) = values.pop() else { break; };
        spin(if v.is_atom() { 1 } else { 50 });
        if k == 1 { if v.is_atom() { values.push(t); values.push(t); } }
    }
    std::mem::forget(values);
} }

proof! { #[kani::unwind(6)] fn probe_vgd_sexp_v() { vgd(3); } }
proof! { #[kani::unwind(6)] fn probe_vgd_sexp_v_diag() { vgd(4); } }

fn vge(with_ac: bool, guard_k: bool) {
    let mut a = Allocator::new();
    let three = a.new_small_number(3).unwrap();
    let t = a.new_pair(a.one(), three).unwrap();
    let mut values: Vec<NodePtr> = vec![t];
    let mut k = 0;
    while k < 3 {
        k += 1;
        let Some(v) = values.pop() else { break; };
        if with_ac { spin(values.len() as u32); }
        spin(if v.is_pair() == (k == 1) { 1 } else { 50 });
        if (!guard_k || k == 1) && v.is_pair() {
            if let clvmr::allocator::SExp::Pair(l, r) = a.sexp(v) { values.push(r); values.push(l); }
        }
        if with_ac { spin(values.len() as u32); }
    }
    std::mem::forget(a);
}
proof! { #[kani::unwind(6)] fn probe_vge_ac_noguard() { vge(true, false); } }
proof! { #[kani::unwind(6)] fn probe_vge_noac_noguard() { vge(false, false); } }
proof! { #[kani::unwind(6)] fn probe_vge_noac_guard() { vge(false, true); } }

proof! { #[kani::unwind(6)] fn probe_sexp_read_conc() {
    let mut a = Allocator::new();
    let three = a.new_small_number(3).unwrap();
    let one = a.one();
    let t = a.new_pair(one, three).unwrap();
    if let clvmr::allocator::SExp::Pair(l, r) = a.sexp(t) { spin(if l == one && r == three { 1 } else { 50 }); }
    std::mem::forget(a);
} }
proof! { #[kani::unwind(6)] fn probe_sexp_read_conc2() {
    let mut a = Allocator::new();
    let three = a.new_small_number(3).unwrap();
    let one = a.one();
    let t0 = a.new_pair(three, three).unwrap();
    let t = a.new_pair(one, t0).unwrap();
    if let clvmr::allocator::SExp::Pair(l, r) = a.sexp(t) { spin(if l == one && r == t0 { 1 } else { 50 }); }
    std::mem::forget(a);
} }

fn eq_variant(level: u8) {
    use crate::ops::*;
    let mut e = Env::new();
    let args = e.list(&[A::View(2), A::Small]);
    if level >= 1 {
        let flags = any_flags(crate::c02::cost_flags());
        let b: u64 = kani::any();
        let unl = clvmr::core_ops::op_eq(&mut e.a, args, u64::MAX, flags);
        if level >= 2 {
            let lim = clvmr::core_ops::op_eq(&mut e.a, args, b, flags);
            if level >= 3 {
                check_budget_lemma::<12>(&e.a, &unl, &lim, b);
            }
            std::mem::forget(lim);
        } else {
            assert!(unl.is_ok());
        }
        std::mem::forget(unl);
    }
    std::mem::forget(e);
}
proof! { #[kani::unwind(18)] fn probe_eq_l0() { eq_variant(0); } }
proof! { #[kani::unwind(18)] fn probe_eq_l1() { eq_variant(1); } }
proof! { #[kani::unwind(18)] fn probe_eq_l2() { eq_variant(2); } }
proof! { #[kani::unwind(18)] fn probe_eq_l3() { eq_variant(3); } }

fn cmp_variant(op: crate::ops::OpFn, specs: &[crate::ops::A], mode: u8) {
    use crate::ops::*;
    use clvmr::reduction::Reduction;
    let mut e = Env::new();
    let args = e.list(specs);
    let flags = any_flags(crate::c02::cost_flags());
    let b: u64 = kani::any();
    let unl = op(&mut e.a, args, u64::MAX, flags);
    let lim = op(&mut e.a, args, b, flags);
    if let (Ok(Reduction(c1, v1)), Ok(Reduction(c2, v2))) = (&unl, &lim) {
        assert!(c1 == c2);
        match mode {
            0 => assert!(*v1 == *v2),
            1 => { assert!(v1.is_atom() == v2.is_atom()); if v1.is_atom() && v2.is_atom() { assert!(e.a.atom_len(*v1) == e.a.atom_len(*v2)); assert!(e.a.small_number(*v1) == e.a.small_number(*v2)); } }
            2 => { assert!(v1.is_atom() == v2.is_atom()); if v1.is_atom() && v2.is_atom() { assert!(e.a.atom_eq(*v1, *v2)); } }
            _ => assert!(tree_eq::<12>(&e.a, *v1, *v2, 2)),
        }
    }
    std::mem::forget(unl); std::mem::forget(lim); std::mem::forget(e);
}
proof! { #[kani::unwind(18)] fn probe_cmp_eq_m0() { cmp_variant(clvmr::core_ops::op_eq, &[crate::ops::A::View(2), crate::ops::A::Small], 0); } }
proof! { #[kani::unwind(18)] fn probe_cmp_eq_m1() { cmp_variant(clvmr::core_ops::op_eq, &[crate::ops::A::View(2), crate::ops::A::Small], 1); } }
proof! { #[kani::unwind(18)] fn probe_cmp_eq_m2() { cmp_variant(clvmr::core_ops::op_eq, &[crate::ops::A::View(2), crate::ops::A::Small], 2); } }
proof! { #[kani::unwind(18)] fn probe_cmp_add_m0() { cmp_variant(clvmr::more_ops::op_add, &[crate::ops::A::Small, crate::ops::A::Small], 0); } }
proof! { #[kani::unwind(18)] fn probe_cmp_add_m1() { cmp_variant(clvmr::more_ops::op_add, &[crate::ops::A::Small, crate::ops::A::Small], 1); } }
proof! { #[kani::unwind(18)] fn probe_cmp_add_m2() { cmp_variant(clvmr::more_ops::op_add, &[crate::ops::A::Small, crate::ops::A::Small], 2); } }

kernel_proof! { #[kani::unwind(10)] fn probe_bigint_add() {
    use clvmr::number::Number;
    let x: u32 = kani::any();
    let y: i32 = kani::any();
    let mut n = Number::from(x);
    n += Number::from(y);
    let expect = x as i64 + y as i64;
    assert!(n == Number::from(expect));
    std::mem::forget(n);
} }
proof! { #[kani::unwind(18)] fn probe_add_slow_single() {
    use crate::ops::*;
    let mut e = Env::new();
    let args = e.list(&[A::View(2), A::Small]);
    let r = clvmr::more_ops::op_add(&mut e.a, args, u64::MAX, ClvmFlags::empty());
    assert!(r.is_ok());
    std::mem::forget(r); std::mem::forget(e);
} }
proof! { #[kani::unwind(18)] fn probe_number_from_u8() {
    use crate::ops::*;
    let mut e = Env::new();
    let v = e.arg(A::View(2));
    let n = e.a.number(v);
    let hi = e.bytes[0] as i8 as i64;
    assert!(n == clvmr::number::Number::from(hi * 256 + e.bytes[1] as i64));
    std::mem::forget(n); std::mem::forget(e);
} }
