//! cost probes (not part of any claim)
use crate::util::*;
use clvmr::allocator::{Allocator, NodePtr};

proof! {
    #[kani::unwind(8)]
    fn probe_p1_new() {
        let a = Allocator::new();
        assert!(a.atom_count() == 2);
        std::mem::forget(a);
    }
}
proof! {
    #[kani::unwind(8)]
    fn probe_p2_atom6() {
        let mut a = Allocator::new();
        let hb: [u8; 6] = kani::any();
        let h = a.new_atom(&hb).unwrap();
        assert!(a.atom_len(h) == 6);
        std::mem::forget(a);
    }
}
proof! {
    #[kani::unwind(8)]
    fn probe_p3_atom6_read() {
        let mut a = Allocator::new();
        let hb: [u8; 6] = kani::any();
        let h = a.new_atom(&hb).unwrap();
        let at = a.atom(h);
        let s = at.as_ref();
        let mut i = 0;
        while i < 6 { assert!(s[i] == hb[i]); i += 1; }
        std::mem::forget(a);
    }
}
proof! {
    #[kani::unwind(8)]
    fn probe_p4_view() {
        let mut a = Allocator::new();
        let hb: [u8; 6] = kani::any();
        let h = a.new_atom(&hb).unwrap();
        let vs: u32 = kani::any();
        let ve: u32 = kani::any();
        kani::assume(vs <= ve && ve <= 6);
        let v = a.new_substr(h, vs, ve).unwrap();
        assert!(a.atom_len(v) == (ve - vs) as usize);
        std::mem::forget(a);
    }
}
proof! {
    #[kani::unwind(8)]
    fn probe_p5_limited_sym() {
        let limit: usize = kani::any();
        kani::assume(limit <= u32::MAX as usize && limit >= 7);
        let mut a = Allocator::new_limited(limit);
        let hb: [u8; 6] = kani::any();
        let h = a.new_atom(&hb).unwrap();
        assert!(a.atom_len(h) == 6);
        std::mem::forget(a);
    }
}
proof! {
    #[kani::unwind(8)]
    fn probe_p6_pair() {
        let mut a = Allocator::new();
        let hb: [u8; 6] = kani::any();
        let h = a.new_atom(&hb).unwrap();
        let p = a.new_pair(h, h).unwrap();
        let q = a.new_pair(p, h).unwrap();
        assert!(a.pair_count() == 2);
        std::mem::forget(a);
    }
}
proof! {
    #[kani::unwind(8)]
    fn probe_p7_ghost() {
        let mut a = Allocator::new();
        let ga: usize = kani::any();
        kani::assume(a.add_ghost_atom(ga).is_ok());
        let hb: [u8; 6] = kani::any();
        let h = a.new_atom(&hb);
        kani::cover!(h.is_err());
        std::mem::forget(a);
    }
}

proof! {
    #[kani::unwind(8)]
    fn probe_p8_pre_inv() {
        let p = crate::c12::pre();
        crate::c12::inv(&p);
        std::mem::forget(p);
    }
}
proof! {
    #[kani::unwind(8)]
    fn probe_p9_pre_contents() {
        let p = crate::c12::pre();
        crate::c12::contents_unchanged(&p);
        std::mem::forget(p);
    }
}
proof! {
    #[kani::unwind(8)]
    fn probe_p10_pre_only() {
        let p = crate::c12::pre();
        assert!(p.a.pair_count() >= 1);
        std::mem::forget(p);
    }
}
