//! C29 — size-limited serializers fail exactly at the limit with out-of-memory.
//! The real `LimitedWriter` and `node_to_stream` (exactly what `node_to_bytes_limit` composes,
//! reached through the verif-hooks re-export) write into a fixed buffer instead of a growing Vec.
use crate::util::*;
use clvmr::allocator::{Allocator, NodePtr};
use clvmr::error::EvalErr;
use clvmr::serde::verif_hooks::{LimitedWriter, node_to_stream};

fn check_limit(a: &Allocator, t: NodePtr, limit: usize) {
    let mut full: FixedBuf<20> = FixedBuf::new();
    let r0 = node_to_stream(a, t, &mut full);
    assert!(r0.is_ok(), "C29/classic/unlimited-must-succeed");
    let n = full.len;
    let mut w = LimitedWriter::new(FixedBuf::<20>::new(), limit);
    let r = node_to_stream(a, t, &mut w);
    let out = w.into_inner();
    if n <= limit {
        match r {
            Ok(()) => {
                assert!(out.len == n, "C29/classic/within-limit-length");
                let mut i = 0;
                while i < n {
                    assert!(out.buf[i] == full.buf[i], "C29/classic/within-limit-bytes");
                    i += 1;
                }
            }
            Err(_) => assert!(false, "C29/classic/within-limit-must-succeed"),
        }
        kani::cover!(n == limit, "limit exactly equal to length");
    } else {
        match r {
            Ok(_) => assert!(false, "C29/classic/over-limit-must-fail"),
            Err(e) => {
                // which byte crossed the limit: position `limit` in the unlimited output
                let crossing = full.buf[limit];
                let on_cons = crossing == 0xff;
                if on_cons {
                    assert!(matches!(e, EvalErr::OutOfMemory), "C29/classic/over-limit-on-cons-marker-is-out-of-memory");
                } else {
                    assert!(matches!(e, EvalErr::OutOfMemory), "C29/classic/over-limit-on-atom-is-out-of-memory");
                }
                kani::cover!(on_cons, "crossing on a cons marker");
                kani::cover!(!on_cons, "crossing inside an atom");
            }
        }
        kani::cover!(limit + 1 == n, "limit one below length");
        kani::cover!(limit == 0, "limit zero");
    }
}

// every tree/DAG with 1..=2 pairs over two symbolic 0..=2 byte atoms, any limit
proof! {
    #[kani::unwind(22)]
    fn c29_classic_tree_2pairs() {
        let mut a = Allocator::new();
        let mut p: Pool<4> = Pool::new();
        let b1: [u8; 4] = kani::any();
        let l1: usize = kani::any();
        kani::assume(l1 <= 2);
        p.push(new_atom_len(&mut a, &b1, l1));
        let b2: [u8; 4] = kani::any();
        let l2: usize = kani::any();
        kani::assume(l2 <= 2);
        p.push(new_atom_len(&mut a, &b2, l2));
        let k: usize = kani::any();
        kani::assume(k >= 1 && k <= 2);
        let t = p.grow(&mut a, k);
        let limit: usize = kani::any();
        kani::assume(limit <= 12);
        check_limit(&a, t, limit);
        std::mem::forget(a);
    }
}

// single atom: crossing in the length prefix or in the body
proof! {
    #[kani::unwind(22)]
    fn c29_classic_single_atom() {
        let mut a = Allocator::new();
        let bytes: [u8; 4] = kani::any();
        let len: usize = kani::any();
        kani::assume(len <= 4);
        let n = new_atom_len(&mut a, &bytes, len);
        let limit: usize = kani::any();
        kani::assume(limit <= 6);
        let mut full: FixedBuf<20> = FixedBuf::new();
        node_to_stream(&a, n, &mut full).unwrap();
        let total = full.len;
        let mut w = LimitedWriter::new(FixedBuf::<20>::new(), limit);
        let r = node_to_stream(&a, n, &mut w);
        if total <= limit {
            assert!(r.is_ok(), "C29/classic/within-limit-must-succeed");
        } else {
            let has_prefix = total > len;
            match r {
                Ok(()) => assert!(false, "C29/classic/over-limit-must-fail"),
                Err(e) => {
                    if has_prefix && limit == 0 {
                        assert!(matches!(e, EvalErr::OutOfMemory), "C29/classic/over-limit-on-length-prefix-is-out-of-memory");
                        kani::cover!(true, "crossing on the length prefix");
                    } else {
                        assert!(matches!(e, EvalErr::OutOfMemory), "C29/classic/over-limit-in-atom-body-is-out-of-memory");
                        kani::cover!(true, "crossing in the atom body");
                    }
                }
            }
        }
        std::mem::forget(a);
    }
}
