//! C29 — size-limited serializers fail exactly at the limit with out-of-memory.
//! The real `LimitedWriter`, `write_atom` and `node_to_stream` (exactly what `node_to_bytes_limit`
//! composes; `node_to_bytes_backrefs_limit` composes the same `LimitedWriter`, `write_atom` and
//! `f.write_all(&[marker])?` pieces) write into a fixed buffer instead of a growing Vec.
//! One harness per concrete atom length / tree shape; contents and the limit are symbolic.
use crate::util::*;
use clvmr::allocator::{Allocator, NodePtr};
use clvmr::error::EvalErr;
use clvmr::serde::verif_hooks::{LimitedWriter, node_to_stream};
use clvmr::serde::write_atom::write_atom;

// ---- kernel: one atom of concrete length L, any content, any limit
fn atom_limit<const L: usize, const N: usize>() {
    let b: [u8; L] = kani::any();
    let limit: usize = kani::any();
    kani::assume(limit <= L + 4);
    let mut full: FixedBuf<N> = FixedBuf::new();
    let r0 = write_atom(&mut full, &b);
    assert!(r0.is_ok(), "C29/kernel/unlimited-must-succeed");
    let total = full.len;
    let prefix = total - L;
    let mut w = LimitedWriter::new(FixedBuf::<N>::new(), limit);
    let r = write_atom(&mut w, &b);
    let out = w.into_inner();
    if total <= limit {
        assert!(r.is_ok(), "C29/kernel/within-limit-must-succeed");
        assert!(out.len == total, "C29/kernel/within-limit-length");
        let mut i = 0;
        while i < total {
            assert!(out.buf[i] == full.buf[i], "C29/kernel/within-limit-bytes");
            i += 1;
        }
        kani::cover!(total == limit, "limit exactly equal to length");
    } else {
        let in_prefix = limit < prefix;
        kani::cover!(in_prefix, "crossing in the length prefix");
        kani::cover!(L == 0 || !in_prefix, "crossing in the atom body");
        match r {
            Ok(()) => assert!(false, "C29/kernel/over-limit-must-fail"),
            Err(e) => {
                if in_prefix {
                    assert!(matches!(e, EvalErr::OutOfMemory), "C29/over-limit-on-length-prefix-is-out-of-memory");
                } else {
                    assert!(matches!(e, EvalErr::OutOfMemory), "C29/over-limit-in-atom-body-is-out-of-memory");
                }
            }
        }
    }
}
kernel_proof! { #[kani::unwind(12)] fn c29_atom_len0() { atom_limit::<0, 8>(); } }
kernel_proof! { #[kani::unwind(12)] fn c29_atom_len1() { atom_limit::<1, 8>(); } }
kernel_proof! { #[kani::unwind(12)] fn c29_atom_len2() { atom_limit::<2, 8>(); } }
kernel_proof! { #[kani::unwind(12)] fn c29_atom_len3() { atom_limit::<3, 8>(); } }
// 64 bytes: two-byte length prefix (crossing between the two prefix bytes is limit == 1)
kernel_proof! { #[kani::unwind(72)] fn c29_atom_len64() { atom_limit::<64, 72>(); } }

// ---- trees: concrete shape per harness, symbolic leaves (2-byte, 1-byte, nil), any limit
fn check_limit(a: &Allocator, t: NodePtr, max_limit: usize) {
    let limit: usize = kani::any();
    kani::assume(limit <= max_limit);
    let mut full: FixedBuf<20> = FixedBuf::new();
    let r0 = node_to_stream(a, t, &mut full);
    assert!(r0.is_ok(), "C29/classic/unlimited-must-succeed");
    let n = full.len;
    let mut w = LimitedWriter::new(FixedBuf::<20>::new(), limit);
    let r = node_to_stream(a, t, &mut w);
    let out = w.into_inner();
    if n <= limit {
        match r {
            Ok(()) => {
                assert!(out.len == n, "C29/classic/within-limit-length");
                let mut i = 0;
                while i < n {
                    assert!(out.buf[i] == full.buf[i], "C29/classic/within-limit-bytes");
                    i += 1;
                }
            }
            Err(_) => assert!(false, "C29/classic/within-limit-must-succeed"),
        }
        kani::cover!(n == limit, "limit exactly equal to length");
    } else {
        // the first write that does not fit: the unlimited output byte at the number of bytes written so far
        let crossing = full.buf[out.len];
        let on_cons = crossing == 0xff && out.len < n;
        kani::cover!(on_cons, "crossing on a cons marker");
        kani::cover!(!on_cons, "crossing on an atom");
        match r {
            Ok(_) => assert!(false, "C29/classic/over-limit-must-fail"),
            Err(e) => {
                if on_cons {
                    assert!(matches!(e, EvalErr::OutOfMemory), "C29/over-limit-on-cons-marker-is-out-of-memory");
                } else {
                    assert!(matches!(e, EvalErr::OutOfMemory), "C29/over-limit-on-atom-is-out-of-memory");
                }
            }
        }
        kani::cover!(limit + 1 == n, "limit one below length");
        kani::cover!(limit == 0, "limit zero");
    }
}

// leaves with a concrete representation and length (so that the serializer's control flow depends only
// on the limit): views of a 6-byte symbolic heap atom, the inline integers 5 and 0x1234, and nil
fn leaves(a: &mut Allocator) -> (NodePtr, NodePtr, NodePtr) {
    let base: [u8; 6] = kani::any();
    let b = a.new_atom(&base).unwrap();
    let x = a.new_substr(b, 0, 2).unwrap();
    let y = a.new_substr(b, 2, 3).unwrap();
    (x, y, a.nil())
}

proof! {
    #[kani::unwind(8)]
    fn c29_tree_pair() {
        let mut a = Allocator::new();
        let (x, y, _) = leaves(&mut a);
        let t = a.new_pair(x, y).unwrap();
        check_limit(&a, t, 6);
        std::mem::forget(a);
    }
}
proof! {
    #[kani::unwind(8)]
    fn c29_tree_left_nested() {
        let mut a = Allocator::new();
        let (x, y, z) = leaves(&mut a);
        let p = a.new_pair(x, y).unwrap();
        let t = a.new_pair(p, z).unwrap();
        check_limit(&a, t, 8);
        std::mem::forget(a);
    }
}
proof! {
    #[kani::unwind(8)]
    fn c29_tree_right_nested_inline() {
        let mut a = Allocator::new();
        let (x, _, z) = leaves(&mut a);
        let s = a.new_small_number(0x1234).unwrap();
        let p = a.new_pair(s, z).unwrap();
        let t = a.new_pair(x, p).unwrap();
        check_limit(&a, t, 10);
        std::mem::forget(a);
    }
}
proof! {
    #[kani::unwind(8)]
    fn c29_tree_shared() {
        let mut a = Allocator::new();
        let (_, y, _) = leaves(&mut a);
        let five = a.new_small_number(5).unwrap();
        let p = a.new_pair(y, five).unwrap();
        let t = a.new_pair(p, p).unwrap();
        check_limit(&a, t, 10);
        std::mem::forget(a);
    }
}

// ---- the public entry points themselves (Cursor<Vec<u8>> sink): node_to_bytes_limit against node_to_bytes
fn public_limit(a: &Allocator, t: NodePtr, max_limit: usize) {
    let limit: usize = kani::any();
    kani::assume(limit <= max_limit);
    let full = clvmr::serde::node_to_bytes(a, t);
    let lim = clvmr::serde::node_to_bytes_limit(a, t, limit);
    match &full {
        Ok(f) => {
            let n = f.len();
            match &lim {
                Ok(l) => {
                    assert!(n <= limit, "C29/public/over-limit-must-fail");
                    assert!(l.len() == n, "C29/public/within-limit-returns-the-unlimited-serialization");
                    let mut i = 0;
                    while i < n {
                        assert!(l[i] == f[i], "C29/public/within-limit-returns-the-unlimited-serialization");
                        i += 1;
                    }
                    kani::cover!(n == limit, "limit exactly equal to length");
                }
                Err(e) => {
                    assert!(n > limit, "C29/public/within-limit-must-succeed");
                    assert!(matches!(e, EvalErr::OutOfMemory), "C29/public/over-limit-is-out-of-memory");
                    kani::cover!(limit + 1 == n, "limit one below length");
                }
            }
        }
        Err(_) => assert!(false, "C29/public/unlimited-must-succeed"),
    }
    std::mem::forget(full);
    std::mem::forget(lim);
}
proof! {
    #[kani::unwind(12)]
    fn c29_public_atom() {
        let mut a = Allocator::new();
        let (x, _, _) = leaves(&mut a);
        public_limit(&a, x, 5);
        std::mem::forget(a);
    }
}
proof! {
    #[kani::unwind(12)]
    fn c29_public_pair() {
        let mut a = Allocator::new();
        let (x, y, _) = leaves(&mut a);
        let t = a.new_pair(x, y).unwrap();
        public_limit(&a, t, 7);
        std::mem::forget(a);
    }
}
