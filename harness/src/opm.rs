//! Reference model M for the byte/structure operators (written from the CLVM operator definitions and
//! docs/cost-model.md, not from src/): expected outcome as a function of argument *values*, cost model
//! and budget. One harness per (operator, argument shape); contents, budget and flags symbolic.
//! Serves C01 (agreement with the reference), C02 (budget semantics), C10 (costs), C25 (totality).
use crate::ops::*;
use crate::util::*;
use clvmr::allocator::{Allocator, NodePtr, SExp};
use clvmr::chia_dialect::ClvmFlags;
use clvmr::cost::Cost;
use clvmr::error::EvalErr;
use clvmr::reduction::{Reduction, Response};

/// model view of one argument
#[derive(Clone, Copy)]
pub struct MArg {
    pub node: NodePtr,
    pub is_pair: bool,
    pub len: usize,
    pub b: [u8; 8],
}

pub struct MEnv {
    pub e: Env,
    pub args: [MArg; 4],
    pub n: usize,
    pub list: NodePtr,
}

fn canon_bytes(v: u32) -> ([u8; 8], usize) {
    let mut out = [0u8; 8];
    if v == 0 {
        return (out, 0);
    }
    let len = if v < 0x80 { 1 } else if v < 0x8000 { 2 } else if v < 0x80_0000 { 3 } else if v < 0x8000_0000 { 4 } else { 5 };
    let mut i = 0;
    while i < len {
        let shift = 8 * (len - 1 - i);
        out[i] = if shift >= 32 { 0 } else { (v >> shift) as u8 };
        i += 1;
    }
    (out, len)
}

pub fn menv(specs: &[A]) -> MEnv {
    let mut e = Env::new();
    let mut args = [MArg { node: NodePtr::NIL, is_pair: false, len: 0, b: [0; 8] }; 4];
    let mut used = 0usize;
    // concrete atoms are allocated first and symbolic inline integers last: a symbolic-length inline atom makes
    // ghost_heap symbolic, after which a fallible atom allocation returns a symbolic node (DESIGN 10.1)
    let mut nodes = [NodePtr::NIL; 4];
    let mut i = 0;
    while i < specs.len() {
        if !matches!(specs[i], A::Small) {
            nodes[i] = e.arg(specs[i]);
        }
        i += 1;
    }
    let mut small_vals = [0u32; 4];
    let mut i = 0;
    while i < specs.len() {
        if matches!(specs[i], A::Small) {
            let v: u32 = kani::any();
            kani::assume(v < (1 << 26));
            small_vals[i] = v;
            nodes[i] = e.a.new_small_number(v).unwrap();
        }
        i += 1;
    }
    let mut i = 0;
    while i < specs.len() {
        let node = nodes[i];
        let mut m = MArg { node, is_pair: false, len: 0, b: [0; 8] };
        match specs[i] {
            A::View(l) => {
                m.len = l;
                // (the model keeps the first 8 bytes; longer atoms are only used where contents do not matter)
                let mut j = 0;
                while j < l && j < 8 {
                    m.b[j] = e.bytes[used + j];
                    j += 1;
                }
                used += l;
            }
            A::SmallC(v) => {
                let (b, l) = canon_bytes(v);
                m.b = b;
                m.len = l;
            }
            A::Nil => {}
            A::Pair => m.is_pair = true,
            A::Small => {
                let (b, l) = canon_bytes(small_vals[i]);
                m.b = b;
                m.len = l;
            }
        }
        args[i] = m;
        i += 1;
    }
    let mut list = e.a.nil();
    let mut i = specs.len();
    while i > 0 {
        i -= 1;
        list = e.a.new_pair(args[i].node, list).unwrap();
    }
    MEnv { e, args, n: specs.len(), list }
}

#[derive(Clone, Copy)]
pub enum MErr {
    InvalidOpArg,
    Raise,
    CostExceeded,
}

#[derive(Clone, Copy)]
pub enum MVal {
    /// the very node passed in (if / first / rest return their operand)
    Node(NodePtr),
    Bool(bool),
    Bytes([u8; 24], usize),
    /// a new pair of two given nodes
    PairOf(NodePtr, NodePtr),
}

pub type MOut = Result<(Cost, MVal), MErr>;

/// compare the real outcome with the model's
pub fn check_against_model(a: &Allocator, r: &Response, m: &MOut) {
    match (r, m) {
        (Ok(Reduction(c, v)), Ok((mc, mv))) => {
            assert!(*c == *mc, "C10/op-cost-equals-documented-formula");
            let ok = match mv {
                MVal::Node(n) => *v == *n,
                MVal::Bool(b) => v.is_atom() && a.atom_len(*v) == (if *b { 1 } else { 0 }) && (!*b || a.atom(*v).as_ref()[0] == 1),
                MVal::Bytes(bytes, len) => {
                    if !v.is_atom() || a.atom_len(*v) != *len {
                        false
                    } else {
                        let at = a.atom(*v);
                        let s = at.as_ref();
                        let mut same = true;
                        let mut i = 0;
                        while i < *len {
                            if s[i] != bytes[i] {
                                same = false;
                            }
                            i += 1;
                        }
                        same
                    }
                }
                MVal::PairOf(x, y) => matches!(a.sexp(*v), SExp::Pair(l, rr) if l == *x && rr == *y),
            };
            assert!(ok, "C01/op-result-equals-reference");
        }
        (Err(e), Err(me)) => {
            let same = match me {
                MErr::InvalidOpArg => matches!(e, EvalErr::InvalidOpArg(_, _)),
                MErr::Raise => matches!(e, EvalErr::Raise(_)),
                MErr::CostExceeded => matches!(e, EvalErr::CostExceeded),
            };
            assert!(same, "C01/op-fails-with-the-reference-error-kind");
        }
        (Ok(_), Err(MErr::CostExceeded)) => assert!(false, "C02/op-partial-cost-over-budget-must-fail-cost-exceeded"),
        (Err(EvalErr::CostExceeded), Ok(_)) => assert!(false, "C02/op-fails-cost-exceeded-only-when-a-partial-cost-exceeds-the-budget"),
        (Ok(_), Err(_)) => assert!(false, "C01/op-succeeds-where-the-reference-fails"),
        (Err(_), Ok(_)) => assert!(false, "C01/op-fails-where-the-reference-succeeds"),
    }
    if let Err(e) = r {
        assert!(!is_internal(e), "C25/op-never-internal-error");
    }
    kani::cover!(true, "outcome compared with the reference");
}

fn bytes_val(src: &[u8], len: usize) -> MVal {
    let mut b = [0u8; 24];
    let mut i = 0;
    while i < len {
        b[i] = src[i];
        i += 1;
    }
    MVal::Bytes(b, len)
}

fn is_nil(a: &MArg) -> bool {
    !a.is_pair && a.len == 0
}

/// signed 32-bit value of an atom of at most 4 bytes (None if longer)
fn i32_of(a: &MArg) -> Option<i64> {
    if a.len > 4 {
        return None;
    }
    if a.len == 0 {
        return Some(0);
    }
    let mut v: i64 = if a.b[0] & 0x80 != 0 { -1 } else { 0 };
    let mut i = 0;
    while i < a.len {
        v = (v << 8) | a.b[i] as i64;
        i += 1;
    }
    Some(v)
}

/// minimal two's complement encoding of a small non-negative integer
fn int_bytes(v: usize) -> MVal {
    let (b, l) = canon_bytes(v as u32);
    bytes_val(&b, l)
}

pub fn model(op: &str, m: &MEnv, new_model: bool, budget: Cost) -> MOut {
    let a = &m.args;
    let n = m.n;
    let any_pair_upto = |k: usize| -> bool {
        let mut i = 0;
        let mut p = false;
        while i < k {
            p = p || a[i].is_pair;
            i += 1;
        }
        p
    };
    match op {
        "if" => {
            if n != 3 { return Err(MErr::InvalidOpArg); }
            let chosen = if is_nil(&a[0]) { a[2].node } else { a[1].node };
            Ok((if new_model { 330 } else { 33 }, MVal::Node(chosen)))
        }
        "cons" => {
            if n != 2 { return Err(MErr::InvalidOpArg); }
            Ok((50, MVal::PairOf(a[0].node, a[1].node)))
        }
        "first" | "rest" => {
            // operand must be a pair; the harness pair is (1 . 1)
            if n != 1 || !a[0].is_pair { return Err(MErr::InvalidOpArg); }
            Ok((30, MVal::Bool(true)))
        }
        "listp" => {
            if n != 1 { return Err(MErr::InvalidOpArg); }
            Ok((if new_model { 200 } else { 19 }, MVal::Bool(a[0].is_pair)))
        }
        "raise" => Err(MErr::Raise),
        "eq" => {
            if n != 2 || any_pair_upto(2) { return Err(MErr::InvalidOpArg); }
            let mut same = a[0].len == a[1].len;
            let mut i = 0;
            while i < a[0].len && same {
                if a[0].b[i] != a[1].b[i] { same = false; }
                i += 1;
            }
            Ok((117 + (a[0].len + a[1].len) as Cost, MVal::Bool(same)))
        }
        "gr_bytes" => {
            if n != 2 || any_pair_upto(2) { return Err(MErr::InvalidOpArg); }
            // lexicographic comparison of byte strings
            let mut res = a[0].len > a[1].len; // equal prefix: the longer string is greater
            let mut decided = false;
            let mut i = 0;
            while i < a[0].len && i < a[1].len {
                if !decided && a[0].b[i] != a[1].b[i] {
                    res = a[0].b[i] > a[1].b[i];
                    decided = true;
                }
                i += 1;
            }
            Ok((117 + (a[0].len + a[1].len) as Cost, MVal::Bool(res)))
        }
        "strlen" => {
            if n != 1 || a[0].is_pair { return Err(MErr::InvalidOpArg); }
            let l = a[0].len;
            let rlen = if l == 0 { 0 } else { 1 };
            Ok((173 + l as Cost + 10 * rlen, int_bytes(l)))
        }
        "not" => {
            if n != 1 { return Err(MErr::InvalidOpArg); }
            Ok((200, MVal::Bool(is_nil(&a[0]))))
        }
        "any" | "all" => {
            let mut cost: Cost = 200;
            let mut any = false;
            let mut all = true;
            let mut i = 0;
            while i < n {
                cost += 300;
                if cost > budget { return Err(MErr::CostExceeded); }
                any = any || !is_nil(&a[i]);
                all = all && !is_nil(&a[i]);
                i += 1;
            }
            Ok((cost, MVal::Bool(if op == "any" { any } else { all })))
        }
        "concat" => {
            let mut cost: Cost = 142;
            let mut out = [0u8; 24];
            let mut total = 0usize;
            let mut i = 0;
            while i < n {
                if a[i].is_pair { return Err(MErr::InvalidOpArg); }
                cost += 135 + 13 * a[i].len as Cost;
                if cost > budget { return Err(MErr::CostExceeded); }
                let mut j = 0;
                while j < a[i].len {
                    out[total + j] = a[i].b[j];
                    j += 1;
                }
                total += a[i].len;
                i += 1;
            }
            Ok((cost, MVal::Bytes(out, total)))
        }
        "substr" => {
            if n < 2 || n > 3 { return Err(MErr::InvalidOpArg); }
            if a[0].is_pair { return Err(MErr::InvalidOpArg); }
            let size = a[0].len as i64;
            if a[1].is_pair { return Err(MErr::InvalidOpArg); }
            let start = match i32_of(&a[1]) { Some(v) => v, None => return Err(MErr::InvalidOpArg) };
            let end = if n == 3 {
                if a[2].is_pair { return Err(MErr::InvalidOpArg); }
                match i32_of(&a[2]) { Some(v) => v, None => return Err(MErr::InvalidOpArg) }
            } else { size };
            if end < 0 || start < 0 || end > size || end < start { return Err(MErr::InvalidOpArg); }
            let mut out = [0u8; 24];
            let mut j = 0usize;
            while (j as i64) < end - start {
                out[j] = a[0].b[start as usize + j];
                j += 1;
            }
            Ok((if new_model { 2000 } else { 1 }, MVal::Bytes(out, (end - start) as usize)))
        }
        _ => panic!("harness: operator without a model"),
    }
}

pub(crate) fn model_case(name: &str, op: OpFn, specs: &[A]) {
    let mut m = menv(specs);
    let flags = any_flags(crate::c02::cost_flags());
    let b: Cost = kani::any();
    let expect = model(name, &m, flags.contains(ClvmFlags::NEW_COST_MODEL), b);
    let list = m.list;
    if name == "eq" && m.n == 2 && !m.args[0].is_pair && !m.args[1].is_pair {
        // C14: atom equality agrees with byte equality, whatever the two representations
        let (x, y) = (m.args[0], m.args[1]);
        let mut same = x.len == y.len;
        let mut i = 0;
        while i < x.len && i < 8 && same {
            if x.b[i] != y.b[i] { same = false; }
            i += 1;
        }
        assert!(m.e.a.atom_eq(x.node, y.node) == same, "C14/atom-eq-agrees-with-byte-equality");
    }
    let r = op(&mut m.e.a, list, b, flags);
    // first/rest return the operand's children: compare with the harness pair (1 . 1)
    check_against_model(&m.e.a, &r, &expect);
    std::mem::forget(r);
    std::mem::forget(m);
}

include!("gen_opm.rs");
