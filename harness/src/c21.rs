//! C21 — serde_2026 varints are a bijection with strict minimality.
//! Oracle: an independent arithmetic definition of the format written from docs/serde-2026.md:
//! n leading 1 bits, a 0, then a (7+7n)-bit two's complement value, big endian, n in 0..=7.

use crate::util::*;
use clvmr::serde_2026::{read_varint, write_varint};
use std::io::Cursor;

/// number of bytes of the shortest encoding (spec: smallest n with -2^(7n+6) <= v < 2^(7n+6))
fn spec_len(v: i64) -> usize {
    let mut n = 0usize;
    while n < 8 {
        let half = 1i64 << (6 + 7 * n);
        if v >= -half && v < half {
            return n + 1;
        }
        n += 1;
    }
    9
}

/// the value denoted by the first `n+1` bytes of `b`, where n = number of leading ones of b[0]
fn spec_decode(b: &[u8; 8]) -> Option<(i64, usize)> {
    let n = (!b[0]).leading_zeros() as usize;
    if n >= 8 {
        return None;
    }
    // collect all bytes into one big-endian word, strip the prefix bits
    let mut w: u64 = 0;
    let mut i = 0;
    while i <= n {
        w = (w << 8) | b[i] as u64;
        i += 1;
    }
    let bits = 7 + 7 * n;
    let mask = (1u64 << bits) - 1;
    let u = w & mask;
    let v = if u >> (bits - 1) == 1 {
        (u as i64) - (1i64 << bits)
    } else {
        u as i64
    };
    Some((v, n + 1))
}

struct FixedBuf {
    buf: [u8; 10],
    len: usize,
}
impl std::io::Write for FixedBuf {
    fn write(&mut self, b: &[u8]) -> std::io::Result<usize> {
        let mut i = 0;
        while i < b.len() {
            self.buf[self.len] = b[i];
            self.len += 1;
            i += 1;
        }
        Ok(b.len())
    }
    fn flush(&mut self) -> std::io::Result<()> {
        Ok(())
    }
}

// every value in [-2^55, 2^55): shortest length, strict+lenient decode give the value back,
// cursor advanced by exactly the encoded length, first byte prefix declares the length.
kernel_proof! {
    #[kani::unwind(10)]
    fn c21_encode_roundtrip_all_56bit() {
        let v: i64 = kani::any();
        kani::assume(v >= -(1i64 << 55) && v < (1i64 << 55));
        let mut w = FixedBuf { buf: [0u8; 10], len: 0 };
        write_varint(&mut w, v).unwrap();
        let n = w.len;
        assert!(n == spec_len(v));
        assert!(n >= 1 && n <= 8);
        assert!((!w.buf[0]).leading_zeros() as usize == n - 1);
        let strict: bool = kani::any();
        let mut c = Cursor::new(&w.buf[..]);
        let r = read_varint(&mut c, strict);
        match r {
            Ok(x) => {
                assert!(x == v);
                assert!(c.position() as usize == n);
            }
            Err(_) => assert!(false),
        }
        kani::cover!(n == 1);
        kani::cover!(n == 8);
        kani::cover!(v < 0 && n == 4);
    }
}

// every 8-byte buffer: decode consumes exactly prefix-declared bytes, returns the denoted value,
// strict accepts iff the encoding is the shortest one (i.e. re-encoding reproduces the bytes).
kernel_proof! {
    #[kani::unwind(10)]
    fn c21_decode_all_buffers() {
        let b: [u8; 8] = kani::any();
        let strict: bool = kani::any();
        let avail: usize = kani::any();
        kani::assume(avail <= 8);
        let mut c = Cursor::new(&b[..avail]);
        let r = read_varint(&mut c, strict);
        match spec_decode(&b) {
            None => assert!(r.is_err()),
            Some((v, n)) => {
                if n > avail {
                    assert!(r.is_err());
                } else {
                    let minimal = spec_len(v) == n;
                    if !strict || minimal {
                        match r {
                            Ok(x) => {
                                assert!(x == v);
                                assert!(c.position() as usize == n);
                                kani::cover!(!strict && !minimal);
                                kani::cover!(strict && n == 8);
                            }
                            Err(_) => assert!(false),
                        }
                    } else {
                        assert!(r.is_err());
                        kani::cover!(n == 2);
                    }
                    if minimal {
                        // re-encoding reproduces exactly the consumed bytes
                        let mut w = FixedBuf { buf: [0u8; 10], len: 0 };
                        write_varint(&mut w, v).unwrap();
                        assert!(w.len == n);
                        let mut i = 0;
                        while i < n {
                            assert!(w.buf[i] == b[i]);
                            i += 1;
                        }
                    }
                }
            }
        }
    }
}
