//! Native stand-in for the `kani` API used by the harnesses: `any()` pops the next concrete
//! value of a solver counterexample (same order and little-endian byte layout as Kani's
//! concrete playback), `assume(false)` aborts the replay as "assumption violated".
use std::cell::RefCell;

thread_local! {
    static VALS: RefCell<Vec<Vec<u8>>> = RefCell::new(Vec::new());
}

pub struct AssumptionViolated;

pub fn load(vals: Vec<Vec<u8>>) {
    let mut v = vals;
    v.reverse();
    VALS.with(|c| *c.borrow_mut() = v);
}

pub fn remaining() -> usize {
    VALS.with(|c| c.borrow().len())
}

fn pop(n: usize) -> Vec<u8> {
    let v = VALS.with(|c| c.borrow_mut().pop());
    match v {
        Some(b) => {
            if b.len() != n {
                eprintln!("REPLAY-MISMATCH: expected {n}-byte value, got {} bytes", b.len());
                std::process::exit(3);
            }
            b
        }
        None => {
            eprintln!("REPLAY-MISMATCH: ran out of concrete values");
            std::process::exit(3);
        }
    }
}

pub trait Arbitrary: Sized {
    fn any() -> Self;
}

macro_rules! prim {
    ($($t:ty),*) => {$(
        impl Arbitrary for $t {
            fn any() -> Self {
                let b = pop(std::mem::size_of::<$t>());
                <$t>::from_le_bytes(b.try_into().unwrap())
            }
        }
    )*};
}
prim!(u8, u16, u32, u64, u128, usize, i8, i16, i32, i64, i128, isize);

impl Arbitrary for bool {
    fn any() -> Self {
        pop(1)[0] & 1 == 1
    }
}

impl<T: Arbitrary, const N: usize> Arbitrary for [T; N] {
    fn any() -> Self {
        std::array::from_fn(|_| T::any())
    }
}

pub fn any<T: Arbitrary>() -> T {
    T::any()
}

pub fn assume(c: bool) {
    if !c {
        eprintln!("REPLAY-MISMATCH: assumption violated by the concrete values");
        std::process::exit(3);
    }
}

#[macro_export]
macro_rules! __kani_cover {
    ($($t:tt)*) => {};
}
pub use crate::__kani_cover as cover;
