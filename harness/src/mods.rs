// one module per property (kept in a separate file so build.rs can enumerate them)
mod c14;
mod c21;
mod selftest;
