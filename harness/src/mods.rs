// one module per property (kept in a separate file so build.rs can enumerate them)
mod ops;
mod rp;
mod serde;
mod serde_canon;
mod c02;
mod opm;
mod c09;
mod c10;
mod c12;
mod c14;
mod c21;
mod c29;
mod selftest;
mod probe;
