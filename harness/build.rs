// Generates `dispatch(name)` for the native replay build: maps "module::harness" to the function.
use std::{env, fs, path::Path};

fn main() {
    println!("cargo:rerun-if-changed=src");
    let mut arms = String::new();
    let mods = fs::read_to_string("src/mods.rs").unwrap();
    for line in mods.lines() {
        let line = line.trim();
        let Some(m) = line.strip_prefix("mod ").and_then(|s| s.strip_suffix(';')) else {
            continue;
        };
        let src = fs::read_to_string(format!("src/{m}.rs")).unwrap();
        let mut in_proof = false;
        for l in src.lines() {
            let t = l.trim();
            if t.starts_with("proof! {") || t.starts_with("kernel_proof! {") {
                in_proof = true;
                continue;
            }
            if in_proof && t.starts_with("fn ") {
                if let Some(name) = t[3..].split('(').next() {
                    arms.push_str(&format!(
                        "        \"{m}::{name}\" => {{ crate::{m}::{name}(); true }}\n"
                    ));
                }
                in_proof = false;
            }
        }
    }
    let out = format!(
        "pub fn dispatch(name: &str) -> bool {{\n    match name {{\n{arms}        _ => false,\n    }}\n}}\n"
    );
    let dir = env::var("OUT_DIR").unwrap();
    fs::write(Path::new(&dir).join("dispatch.rs"), out).unwrap();
}
