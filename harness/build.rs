// Generates `dispatch(name)` for the native replay build: maps "module::harness" to the function.
// A harness is any `fn name()` that directly follows `proof! {` / `kernel_proof! {` (attributes allowed in between).
use std::{env, fs, path::Path};

fn main() {
    println!("cargo:rerun-if-changed=src");
    let mut arms = String::new();
    let mods = fs::read_to_string("src/mods.rs").unwrap();
    for line in mods.lines() {
        let line = line.trim();
        let Some(m) = line.strip_prefix("mod ").and_then(|s| s.strip_suffix(';')) else {
            continue;
        };
        let mut src = fs::read_to_string(format!("src/{m}.rs")).unwrap();
        // generated harness lists are pulled in with include!("gen_*.rs")
        let mut extra = String::new();
        let mut scan = src.as_str();
        while let Some(pos) = scan.find("include!(\"") {
            scan = &scan[pos + "include!(\"".len()..];
            if let Some(end) = scan.find('"') {
                if let Ok(inc) = fs::read_to_string(format!("src/{}", &scan[..end])) {
                    extra.push_str(&inc);
                }
            }
        }
        src.push_str(&extra);
        let mut rest = src.as_str();
        while let Some(pos) = rest.find("proof! {") {
            rest = &rest[pos + "proof! {".len()..];
            // skip whitespace and #[...] attributes
            let mut s = rest.trim_start();
            while s.starts_with("#[") {
                match s.find(']') {
                    Some(e) => s = s[e + 1..].trim_start(),
                    None => break,
                }
            }
            if let Some(after) = s.strip_prefix("fn ") {
                if let Some(name) = after.split('(').next() {
                    let name = name.trim();
                    if !name.is_empty() && name.chars().all(|c| c.is_alphanumeric() || c == '_') {
                        arms.push_str(&format!(
                            "        \"{m}::{name}\" => {{ crate::{m}::{name}(); true }}\n"
                        ));
                    }
                }
            }
        }
    }
    let out = format!(
        "pub fn dispatch(name: &str) -> bool {{\n    match name {{\n{arms}        _ => false,\n    }}\n}}\n"
    );
    let dir = env::var("OUT_DIR").unwrap();
    fs::write(Path::new(&dir).join("dispatch.rs"), out).unwrap();
}
