#!/usr/bin/env python3
"""Generates the per-operator harness lists (src/gen_*.rs) and lib/gen_registry.json.
One harness per (operator, argument shape): shapes are concrete, contents symbolic."""
import json, os
HERE = os.path.dirname(os.path.abspath(__file__))

# operator table: name -> (rust path, [shapes]); a shape is a list of A:: specs (strings)
V = lambda n: f"A::View({n})"
S = "A::View(2)"; N = "A::Nil"; P = "A::Pair"; K7 = "A::SmallC(7)"; K300 = "A::SmallC(300)"
def SC(v): return f"A::SmallC({v})"
M = "clvmr::more_ops::"; C = "clvmr::core_ops::"
OPS = {
 # core
 "if":       (C+"op_if",     [[V(2), V(1), P], [N, V(2), V(2)], [P, V(1), N], [SC(0), V(1), V(1)], ["A::Small", V(1), V(2)], [V(2), V(2)], [V(1), V(1), V(1), V(1)]]),
 "cons":     (C+"op_cons",   [[V(2), P], [N, N], [V(2)], [V(1), V(1), V(1)]]),
 "first":    (C+"op_first",  [[P], [V(2)], [], [P, P]]),
 "rest":     (C+"op_rest",   [[P], [V(1)], [N]]),
 "listp":    (C+"op_listp",  [[P], [V(2)], [N], [], [P, P]]),
 "raise":    (C+"op_raise",  [[S], [P], [S, S]]),
 "eq":       (C+"op_eq",     [[V(2), V(2)], [V(3), V(3)], [V(1), SC(5)], [V(2), SC(300)], [V(2), SC(5)], [SC(5), V(3)], [V(4), SC(70000)], [SC(256), SC(2)], ["A::Small", V(2)], [SC(128), "A::Small"], ["A::Small", "A::Small"], [V(1), V(2)], [N, V(1)], [S, P], [S]]),
 # more_ops: bytes
 "gr_bytes": (M+"op_gr_bytes", [[V(2), V(2)], [V(2), V(3)], [V(3), V(1)], [V(1), SC(77)], [SC(256), SC(2)], [SC(2), SC(256)], [SC(128), SC(127)], [SC(300), "A::Small"], ["A::Small", SC(2)], ["A::Small", "A::Small"], ["A::Small", V(2)], [N, V(1)], [P, S]]),
 "sha256":   (M+"op_sha256",   [[], [SC(1), SC(5)], [P]]),
 "substr":   (M+"op_substr",   [[V(4), V(1)], [V(4), V(1), V(1)], [V(5), SC(1), SC(3)], [V(4), "A::Small"], [V(5), SC(1), "A::Small"], ["A::Small", SC(1)], [V(3), V(2)], [V(2)], [V(4), P], [P, V(1)], [V(4), V(1), V(5)]]),
 "strlen":   (M+"op_strlen",   [[V(3)], [V(16)], [N], [SC(70000)]]),
 "concat":   (M+"op_concat",   [[V(2), V(2)], [V(1), N, V(2)], [V(3), SC(300), V(1)], [V(2)], [S, P], []]),
 # arithmetic
 "add":      (M+"op_add",      [[S, S], [V(2), S], [S, V(3), S], [P], []]),
 "subtract": (M+"op_subtract", [[S, S], [V(2), S], [S, V(2), S], [S, P], []]),
 "multiply": (M+"op_multiply", [[S, S], [V(2), S], [V(1), V(1), S], [P, S], []]),
 "div":      (M+"op_div",      [[S, S], [V(2), S], [S, V(1)], [S], [S, P]]),
 "divmod":   (M+"op_divmod",   [[S, S], [V(2), S], [S, V(1)], [S, S, S]]),
 "mod":      (M+"op_mod",      [[S, S], [V(2), S], [S, V(1)], [P, S]]),
 "gr":       (M+"op_gr",       [[S, S], [V(2), S], [V(3), V(2)], [S, P]]),
 "ash":      (M+"op_ash",      [[S, SC(3)], [V(2), V(1)], [S, V(3)], [S]]),
 "lsh":      (M+"op_lsh",      [[S, SC(3)], [V(2), V(1)], [S, V(3)], [P, S]]),
 "logand":   (M+"op_logand",   [[S, S], [V(2), S], [V(1), V(2), S], [P], []]),
 "logior":   (M+"op_logior",   [[S, S], [V(2), S], [P]]),
 "logxor":   (M+"op_logxor",   [[S, S], [V(2), V(1)], []]),
 "lognot":   (M+"op_lognot",   [[S], [V(3)], [P], [S, S]]),
 "not":      (M+"op_not",      [[V(2)], [P], [N], [SC(0)], ["A::Small"], [V(1)], [], [N, N]]),
 "any":      (M+"op_any",      [[V(2), P], [N, V(1)], [N, N, N], []]),
 "all":      (M+"op_all",      [[V(2), P], [N, V(1)], [V(1), V(1), N], []]),
 "coinid":   (M+"op_coinid",   [[S, S, S], [P, S, S], [S, S]]),
 "modpow":   (M+"op_modpow",   [[SC(3), SC(2), SC(5)], [S, S, SC(0)], [S, V(1), S], [S, S]]),
 # crypto operators: argument-shape / cost prologues only (return before the curve arithmetic)
 "point_add":      (M+"op_point_add",      [[S], [P], []]),
 "pubkey_for_exp": (M+"op_pubkey_for_exp", [[P], [S, S], []]),
 "g1_subtract":    ("clvmr::bls_ops::op_bls_g1_subtract", [[S], [P]]),
 "g1_multiply":    ("clvmr::bls_ops::op_bls_g1_multiply", [[S, S], [S]]),
 "g1_negate":      ("clvmr::bls_ops::op_bls_g1_negate",   [[S], [P], [S, S]]),
 "g2_add":         ("clvmr::bls_ops::op_bls_g2_add",      [[S], [P]]),
 "g2_subtract":    ("clvmr::bls_ops::op_bls_g2_subtract", [[S], [P]]),
 "g2_multiply":    ("clvmr::bls_ops::op_bls_g2_multiply", [[S, S], [S]]),
 "g2_negate":      ("clvmr::bls_ops::op_bls_g2_negate",   [[S], [P]]),
 "pairing_identity": ("clvmr::bls_ops::op_bls_pairing_identity", [[S], [P, S]]),
 "bls_verify":     ("clvmr::bls_ops::op_bls_verify",      [[S], [P]]),
 "secp256k1_verify": ("clvmr::secp_ops::op_secp256k1_verify", [[S, S], [P, S, S]]),
 "secp256r1_verify": ("clvmr::secp_ops::op_secp256r1_verify", [[S, S], [P, S, S]]),
}

def shape_name(sh):
    if not sh: return "noargs"
    out = []
    for s in sh:
        if s == "A::Small": out.append("sym")
        elif s == S: out.append("v2")
        elif s == N: out.append("n")
        elif s == P: out.append("p")
        elif s.startswith("A::View"): out.append("v" + s[8:-1])
        elif s.startswith("A::SmallC"): out.append("c" + s[10:-1])
    return "_".join(out)

def shape_text(sh):
    names = {N: "nil", P: "a pair", "A::Small": "inline integer of any value < 2^26"}
    out = []
    for s in sh:
        if s in names: out.append(names[s])
        elif s.startswith("A::View"): out.append(f"{s[8:-1]}-byte heap view (any bytes)")
        else: out.append(f"inline integer {s[10:-1]}")
    return "(" + ", ".join(out) + ")" if out else "()"

def gen(prefix, fname, call, maxb=12, unwind=18, ops=None):
    lines = ["// GENERATED by harness/gen_ops.py - do not edit\n"]
    reg = []
    for op, (path, shapes) in OPS.items():
        if ops is not None and op not in ops: continue
        seen = set()
        for i, sh in enumerate(shapes):
            hn = f"{prefix}_{op}_{shape_name(sh)}"
            if hn in seen:
                continue
            seen.add(hn)
            body = call.format(path=path, specs="&[" + ", ".join(sh) + "]", maxb=maxb).replace("__OP__", op)
            lines.append(f"proof! {{ #[kani::unwind({unwind})] fn {hn}() {{ {body} }} }}\n")
            reg.append({"harness": hn, "op": op, "shape": shape_text(sh), "first": i == 0})
    open(os.path.join(HERE, "src", fname), "w").write("".join(lines))
    return reg

R = {}
R["c02"] = gen("c02", "gen_c02.rs", "budget_case::<{maxb}>({path}, {specs}, cost_flags());")
R["opp"] = gen("opp", "gen_opp.rs", "probe_case({path}, {specs});")
MODEL_OPS = ["if", "cons", "first", "rest", "listp", "raise", "eq", "gr_bytes", "strlen", "not", "any", "all", "concat", "substr"]
R["opm"] = gen("opm", "gen_opm.rs", "model_case(\"__OP__\", {path}, {specs});", ops=MODEL_OPS)
json.dump(R, open(os.path.join(HERE, "..", "lib", "gen_registry.json"), "w"), indent=1)
print({k: len(v) for k, v in R.items()})
