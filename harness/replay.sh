#!/bin/bash
# replay a stored counterexample natively: harness/replay.sh /verif/replays/<id>/<mod>__<harness>.values.json
set -e
p="$(readlink -f "$1")"; b=$(basename "$p" .values.json); name="${b/__/::}"
cd "$(dirname "$0")"
export CARGO_NET_OFFLINE=true RUSTUP_TOOLCHAIN=$(sed -n 's/^channel *= *"\(.*\)"/\1/p' /repo/rust-toolchain.toml)
cargo build --offline --features replay --bin replay --target-dir ../.work/native >/dev/null 2>&1
exec ../.work/native/debug/replay "$name" "$p"
