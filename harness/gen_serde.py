#!/usr/bin/env python3
"""Generates src/gen_serde.rs: decoder-agreement harnesses over byte-string templates.
A template fixes the structural bytes (cons / back-reference markers, atom first bytes and length
prefixes) and leaves the payload bytes symbolic ('X'); control flow of the decoders is then concrete
for symex while the payload ranges over all values."""
import os, json
HERE = os.path.dirname(os.path.abspath(__file__))
X = "X"
# name -> cells
ATOMS = {
 "nil": [0x80], "one": [0x01], "b7f": [0x7f], "b33": [0x33],
 "p1": [0x81, X], "p2": [0x82, X, X], "p3": [0x83, X, X, X],
 "p5": [0x85, X, X, X, X, X],        # 5 payload bytes: always a heap atom, so the decoded representation is concrete
 "p2zero": [0x82, 0x00, X],          # leading zero body byte: still canonical as bytes
 "wide1": [0xc0, 0x01, X],           # 2-byte prefix for a 1-byte atom: non-minimal
 "wide0": [0xc0, 0x00],              # 2-byte prefix for the empty atom
 "wide3": [0xe0, 0x00, 0x01, X],     # 3-byte prefix for a 1-byte atom
}
BAD = {
 "empty": [], "cons_only": [0xff], "cons_one": [0xff, 0x01], "trunc_body": [0x82, X], "trunc_prefix": [0xc0],
 "huge": [0xfc, 0x04, 0x00, 0x00, 0x00, 0x00], "ones7": [0xfe, X, X, X, X, X, X], "p40_short": [0xc0, 0x40, X, X],
 "big_trunc": [0xf8, 0x00, 0x00, 0x00, 0x05, X],
}
def cons(a, b): return [0xff] + a + b
CLASSIC = {}
for n, c in ATOMS.items(): CLASSIC["atom_" + n] = c
for n, c in BAD.items(): CLASSIC["bad_" + n] = c
CLASSIC["pair_one_nil"] = cons(ATOMS["one"], ATOMS["nil"])
WIDE5 = [0xc0, 0x05, X, X, X, X, X]   # non-minimal 2-byte prefix for a 5-byte atom
CLASSIC["atom_wide5"] = WIDE5
# upper half of the one-byte-prefix class written with a two-byte prefix (non-minimal): 32 payload bytes
CLASSIC["atom_wide32"] = [0xc0, 0x20] + [X] * 32
CLASSIC["atom_p32"] = [0xa0] + [X] * 32
# the serde_2026 magic prefix followed by anything must be rejected by the classic and back-reference decoders
MAGIC = [0xfd, 0xff, 0x32, 0x30, 0x32, 0x36]
CLASSIC["bad_magic_2026"] = MAGIC + [X, X, X]
CLASSIC["pair_p5_one"] = cons(ATOMS["p5"], ATOMS["one"])
CLASSIC["pair_wide5_b33"] = cons(WIDE5, ATOMS["b33"])
CLASSIC["pair_wide0_one"] = cons(ATOMS["wide0"], ATOMS["one"])
CLASSIC["trailing_after_atom"] = ATOMS["p5"] + [X]
CLASSIC["trailing_after_pair"] = cons(ATOMS["one"], ATOMS["nil"]) + [0xff]
CLASSIC["pair_trunc_right"] = [0xff] + ATOMS["p5"] + [0x82, X]
CLASSIC["pair_with_fe"] = [0xff, 0x01, 0xfe, 0x02]

def br(path): return [0xfe] + path
P5 = ATOMS["p5"]
BACKREF = {
 "atom_p5": P5, "pair_plain": cons(P5, ATOMS["one"]),
 "ref_trunc": cons(ATOMS["one"], [0xfe]),
 "ref_bad_path_prefix": cons(ATOMS["one"], [0xfe, 0xfc, 4, 0, 0, 0, 0]),
 "ref_first_item": [0xfe, 0x01],                      # back-reference with an empty stack
 "ref_zero_path": cons(ATOMS["one"], br([0x80])),     # empty path atom
 "ref_long_zero_path": cons(ATOMS["one"], br([0x82, 0x00, 0x00])),
 "ref_leading_zero_path": cons(P5, br([0x82, 0x00, 0x02])),
 "ref_trailing": cons(P5, br([0x02])) + [X],
}
# every path 1..=15 (all routes of up to 3 steps) against three stack shapes
for pth in range(1, 16):
    BACKREF[f"s1_path{pth}"] = cons(P5, br([pth]))                                  # stack: [A]
    BACKREF[f"s2_path{pth}"] = cons(cons(ATOMS["one"], P5), br([pth]))              # stack: [(1 . A)]
    BACKREF[f"s3_path{pth}"] = cons(P5, cons(ATOMS["b33"], br([pth])))              # stack: [A, 0x33]
for pth in (16, 17, 20, 23, 24, 31, 32, 0x7f):
    BACKREF[f"s3_path{pth}"] = cons(P5, cons(ATOMS["b33"], br([pth])))
# two back-references with a cons completed in between (the stack slot of a finished pair is referenced
# again): ((A . ref p1) . ref p2) and (A . (ref p1 . ref p2)) for small paths, incl. references to the stack itself
for p1 in (1, 2, 3):
    for p2 in (1, 2, 3, 5, 6):
        BACKREF[f"consref_{p1}_{p2}"] = cons(cons(ATOMS["one"], br([p1])), br([p2]))
for p1 in (1, 2):
    for p2 in (1, 2, 3, 4, 6):
        BACKREF[f"refref_{p1}_{p2}"] = cons(P5, cons(br([p1]), br([p2])))
BACKREF["two_refs"] = cons(P5, cons(br([0x02]), br([0x02])))
BACKREF["magic_2026"] = [0xfd, 0xff, 0x32, 0x30, 0x32, 0x36, X, X, X]
BACKREF["ref_to_ref"] = cons(P5, cons(br([0x02]), br([0x04])))

# ---- reference decoder for the classic format, run at generation time on the template
# (X cells are payload: never structural in these templates). Returns None if rejected, else consumed length.
def ref_classic(cells):
    pos = 0
    need = 1
    n = len(cells)
    while need > 0:
        need -= 1
        if pos >= n: return None
        b = cells[pos]; pos += 1
        assert b != X, "structural byte must be concrete"
        if b == 0xff:
            need += 2
        elif b <= 0x7f or b == 0x80:
            pass
        else:
            ones = 0
            while ones < 8 and (b << ones) & 0x80: ones += 1
            if ones > 6: return None
            v = b & (0xff >> ones)
            for _ in range(ones - 1):
                if pos >= n: return None
                assert cells[pos] != X
                v = (v << 8) | cells[pos]; pos += 1
            if v >= 0x400000000: return None
            if pos + v > n: return None
            pos += v
    return pos

def canon_expr(cells, consumed):
    """Rust bool expression: the consumed bytes are the canonical serialization (minimal prefixes)"""
    if consumed is None or consumed != len(cells): return "false"
    conds = []
    pos = 0; need = 1; k = 0
    def xname(i):
        return f"x[{sum(1 for c in cells[:i] if c == X)}]"
    while need > 0:
        need -= 1
        b = cells[pos]; pos += 1
        if b == 0xff: need += 2; continue
        if b <= 0x7f or b == 0x80: continue
        ones = 0
        while (b << ones) & 0x80: ones += 1
        v = b & (0xff >> ones)
        for _ in range(ones - 1):
            v = (v << 8) | cells[pos]; pos += 1
        # minimal prefix length for size v
        minimal = 1 if v < 0x40 else 2 if v < 0x2000 else 3 if v < 0x100000 else 4 if v < 0x8000000 else 5
        if v == 0: return "false"            # empty atom must be 0x80
        if ones != minimal: return "false"
        if v == 1:
            c = cells[pos]
            if c == X: conds.append(f"{xname(pos)} >= 0x80")
            elif c < 0x80: return "false"
        pos += v
    return " && ".join(conds) if conds else "true"


class Reject(Exception): pass
def ref_backrefs(cells):
    """reference decoder of the back-reference format on a template; returns (tree, consumed).
    trees: ('atom', cells) | ('pair', l, r); nil is ('atom', [0x80])"""
    NIL = ('atom', [0x80])
    pos = 0; n = len(cells)
    def rd():
        nonlocal pos
        if pos >= n: raise Reject()
        b = cells[pos]; pos += 1
        return b
    def atom(first):
        nonlocal pos
        if first <= 0x7f or first == 0x80:
            return ('atom', [first]), ([] if first == 0x80 else [first])
        ones = 0
        while ones < 8 and (first << ones) & 0x80: ones += 1
        if ones > 6: raise Reject()
        v = first & (0xff >> ones); pre = [first]
        for _ in range(ones - 1):
            b = rd(); assert b != X; v = (v << 8) | b; pre.append(b)
        if v >= 0x400000000 or pos + v > n: raise Reject()
        body = cells[pos:pos + v]; pos += v
        return ('atom', pre + body), body
    def traverse(path, tree):
        p = list(path)
        while p and p[0] == 0: p.pop(0)
        if not p: return NIL
        bits = []
        val = int.from_bytes(bytes(p), 'big')
        while val > 1:
            bits.append(val & 1); val >>= 1
        node = tree
        for bit in bits:
            if node[0] != 'pair': raise Reject()
            node = node[2] if bit else node[1]
        return node
    stack = NIL   # chialisp list of values, most recent first
    ops = ['sexp']
    while ops:
        op = ops.pop()
        if op == 'sexp':
            b = rd(); assert b != X
            if b == 0xff: ops += ['cons', 'sexp', 'sexp']
            elif b == 0xfe:
                fb = rd(); assert fb != X
                _, body = atom(fb)
                assert all(c != X for c in body)
                stack = ('pair', traverse(body, stack), stack)
            else:
                t, _ = atom(b)
                stack = ('pair', t, stack)
        else:
            right = stack[1]; left = stack[2][1]; rest = stack[2][2]
            stack = ('pair', ('pair', left, right), rest)
    return stack[1], pos

def canonical_atom_cells(acells):
    """atoms are re-serialized with minimal prefixes; the templates' decoded atoms are already minimal
    except 'wide' ones, which the back-reference set does not use"""
    return acells
def ser(tree):
    if tree[0] == 'atom': return canonical_atom_cells(tree[1])
    return [0xff] + ser(tree[1]) + ser(tree[2])
def count_pairs(tree, seen=None):
    return 0 if tree[0] == 'atom' else 1 + count_pairs(tree[1]) + count_pairs(tree[2])

def emit_backref(kind, name, cells):
    xs = sum(1 for c in cells if c == X)
    # give every X a stable index so the expected serialization can refer to the same payload bytes
    idx = []; k = 0; tagged = []
    for c in cells:
        if c == X: tagged.append(('x', k)); k += 1
        else: tagged.append(c)
    def rust(cs): return "[" + ", ".join(f"x[{c[1]}]" if isinstance(c, tuple) else f"0x{c:02x}" for c in cs) + "]"
    decl = f"let x: [u8; {xs}] = kani::any(); " if xs else "let x: [u8; 0] = []; let _ = &x; "
    bdecl = f"let b: [u8; {len(cells)}] = {rust(tagged)};"
    # run the reference on the tagged cells: payload cells are tuples (never equal to a structural int)
    try:
        tree, consumed = ref_backrefs(tagged)
    except Reject:
        return f"proof! {{ #[kani::unwind(42)] fn {kind}_{name}() {{ {decl}{bdecl} backrefs_reject(&b); }} }}\n"
    exp = ser(tree)
    return (f"proof! {{ #[kani::unwind(42)] fn {kind}_{name}() {{ {decl}{bdecl} let expect: [u8; {len(exp)}] = {rust(exp)}; "
            f"backrefs_accept(&b, {consumed}, &expect); }} }}\n")

def emit(kind, name, cells, fn):
    if kind == "c16_t":
        consumed = ref_classic(cells)
        xs = sum(1 for c in cells if c == X)
        body = []; k = 0
        for c in cells:
            if c == X: body.append(f"x[{k}]"); k += 1
            else: body.append(f"0x{c:02x}")
        decl = f"let x: [u8; {xs}] = kani::any(); " if xs else "let x: [u8; 0] = []; "
        bdecl = f"let b: [u8; {len(cells)}] = [" + ", ".join(body) + "];"
        if consumed is None:
            has_fe = 0xfe in cells  # the length probes also understand back-references: not required to reject
            return f"proof! {{ #[kani::unwind({max(12, len(cells) + 8)})] fn {kind}_{name}() {{ {decl}{bdecl} let _ = &x; classic_reject(&b, {str(not has_fe).lower()}); }} }}\n"
        # re-serialization is compared only when every payload atom is longer than 4 bytes or concrete
        # (a symbolic atom of <= 4 bytes has a symbolic in-memory representation, which makes the
        # serializer's writes symbolic-length: measured out of memory)
        small_sym = name in ("atom_p1", "atom_p2", "atom_p3", "atom_p2zero", "atom_wide1", "atom_wide3")
        return (f"proof! {{ #[kani::unwind({max(12, len(cells) + 8)})] fn {kind}_{name}() {{ {decl}{bdecl} let canon = {canon_expr(cells, consumed)}; "
                f"classic_accept(&b, {consumed}, canon, {str(not small_sym).lower()}); }} }}\n")
    return emit_old(kind, name, cells, fn)

def emit_old(kind, name, cells, fn):

    xs = sum(1 for c in cells if c == X)
    body = []
    k = 0
    for c in cells:
        if c == X:
            body.append(f"x[{k}]"); k += 1
        else:
            body.append(f"0x{c:02x}")
    arr = "[" + ", ".join(body) + "]"
    decl = f"let x: [u8; {xs}] = kani::any(); " if xs else ""
    bdecl = f"let b: [u8; {len(cells)}] = {arr};"
    return f"proof! {{ #[kani::unwind(12)] fn {kind}_{name}() {{ {decl}{bdecl} {fn}(&b); }} }}\n"

out = ["// GENERATED by harness/gen_serde.py - do not edit\n"]
reg = {"classic": [], "backref": []}
def txt(cells): return " ".join("XX" if c == X else f"{c:02x}" for c in cells) or "(empty input)"
for n, c in CLASSIC.items():
    out.append(emit("c16_t", n, c, "classic_agree")); reg["classic"].append({"harness": f"c16_t_{n}", "template": txt(c)})
for n, c in BACKREF.items():
    out.append(emit_backref("c18_t", n, c)); reg["backref"].append({"harness": f"c18_t_{n}", "template": txt(c)})
open(os.path.join(HERE, "src", "gen_serde.rs"), "w").write("".join(out))
p = os.path.join(HERE, "..", "lib", "gen_serde_registry.json")
if os.path.isdir(os.path.dirname(p)):
    json.dump(reg, open(p, "w"), indent=1)
print({k: len(v) for k, v in reg.items()})
